"""C18 -- ExpectileGAM fits the requested expectile; fit_quantile reaches its quantile."""
import contextlib
import io
import math
import warnings
from fractions import Fraction

import numpy as np

import common
from common import dylit, coq_list, frac_of_float
import gen_models
import gen_terms

PROP = 'C18'
F_HALF = 'C18-half-expectile-ridge-not-doubled'
HEADER = """From Coq Require Import List ZArith Bool PrimFloat.
From PG Require Import Base.Ops Model.C18Check.
Import ListNotations.
"""
SQRT_EPS = float(np.sqrt(np.finfo(np.float64).eps))
CODES = {1: 'balance residual tau*pos - (1-tau)*neg - sqrt(eps)*b0 exceeds the tolerance', 2: 'count of targets below the prediction differs from _get_quantile_ratio',
         3: 'expectile sequence differs from the bisection machine fed the same ratios', 4: 'number of refits differs', 5: 'ValueError / no ValueError differs',
         6: 'final expectile differs', 7: 'number of ratio evaluations differs', 8: 'machine still running (loop guard)', 9: 'argument rejection differs'}


def flit(x):
    x = float(x)
    if x != x:
        return 'nan'
    if x in (float('inf'), float('-inf')):
        return 'infinity' if x > 0 else 'neg_infinity'
    return '(%s)%%float' % x.hex()


def quiet(fn, *a, **k):
    out = io.StringIO()
    with warnings.catch_warnings(), contextlib.redirect_stdout(out), np.errstate(all='ignore'):
        warnings.simplefilter('ignore')
        return fn(*a, **k)


def with_intercept(specs):
    specs = [dict(s) for s in specs]
    if not any(s['kind'] == 'intercept' for s in specs):
        specs.append(dict(kind='intercept'))
    return specs


def double_lam(spec):
    s = dict(spec)
    if 'lam' in s:
        s['lam'] = [2.0 * v for v in s['lam']]
    if 'margins' in s:
        s['margins'] = [double_lam(m) for m in s['margins']]
    return s


def intercept_column(gam):
    for i, t in enumerate(gam.terms):
        if t.isintercept:
            idx = gam.terms.get_coef_indices(i)
            if len(idx) == 1:
                return int(idx[0])
    return None


def expectile_scenario(rng, **kw):
    scn = gen_models.gen_scenario(rng, cls='ExpectileGAM', constraints=False, **kw)
    scn['specs'] = with_intercept(scn['specs'])
    scn['m'] = gen_models.n_coefs_of(scn['specs'], scn['X'], scn['factor_feats'])
    return scn


# ----------------------------------------------------------------------------------------- balance
def balance_case(res, rng, i, cases, meta, unit=None):
    """unit: multiply the targets by this factor (small-unit scenarios: the estimator is scale equivariant, so the balance must hold
    to the same relative accuracy; a convergence test that is absolute for small coefficient norms stops these fits early)"""
    regime = ['n>m', 'n>m', 'n>m', 'n=m'][i % 4]
    scn = expectile_scenario(rng, regime=regime, max_n=60 if res.tier == 'quick' else 200, max_m=16 if res.tier == 'quick' else 40,
                             weights=['float', 'int', 'zeros', 'none', 'float'][i % 5])
    tau = [0.1, 0.25, 0.5, 0.8, 0.93, None, None][i % 7]
    if tau is None:
        tau = round(rng.uniform(0.02, 0.98), 3)
    tol = [1e-9, 1e-6, 1e-4][i % 3]
    if unit is not None:
        scn['y'] = scn['y'] * unit
        tol = [1e-6, 1e-8, 1e-4][i % 3]
        if tau == 0.5:
            tau = 0.3
    scn['kw'].update(expectile=tau, tol=tol, max_iter=300)
    d = gen_models.describe(scn)
    if unit is not None:
        d['y_unit'] = unit
    try:
        gam = gen_models.build_gam(scn)
        if scn['w'] is None:
            quiet(gam.fit, scn['X'].copy(), scn['y'].copy())
        else:
            quiet(gam.fit, scn['X'].copy(), scn['y'].copy(), weights=scn['w'].copy())
    except Exception as e:   # ValueError: permitted outcome (C11); anything else is not about C18 (counted, reported by the owning property)
        res.count('balance: fit raised %s' % type(e).__name__)
        return
    X, y = scn['X'], scn['y']
    w = np.ones(len(y)) if scn['w'] is None else np.asarray(scn['w'], dtype=np.float32).astype(float)
    if not (gam.logs_['diffs'] and gam.logs_['diffs'][-1] < tol and np.isfinite(gam.coef_).all()):
        res.count('balance: not converged')
        return
    if gam._constraint_l2 != 1e-3:
        res.count('balance: cholesky escalation, skipped')
        return
    j = intercept_column(gam)
    B = gam._modelmat(X).toarray()
    P = gam._P().toarray()
    inp = dict(d, tau=tau, X=X.tolist(), y=y.tolist(), weights=None if scn['w'] is None else scn['w'].tolist())
    if j is None or not (B[:, j] == 1.0).all() or P[j, :].any() or P[:, j].any():
        res.violations.append(dict(what='intercept column is not a column of ones with zero penalty', finding=None, input=inp,
                                   observed=dict(column=j), expected='ones / zero penalty row'))
        return
    mu = quiet(gam.predict, X)
    b0 = float(gam.coef_[j])
    # direct probe in exact rationals (independent of the Coq model)
    T = frac_of_float(tau)
    pos = sum((frac_of_float(wi) * (frac_of_float(yi) - frac_of_float(mi)) for wi, yi, mi in zip(w, y, mu) if yi > mi), Fraction(0))
    neg = sum((frac_of_float(wi) * (frac_of_float(mi) - frac_of_float(yi)) for wi, yi, mi in zip(w, y, mu) if yi <= mi), Fraction(0))
    ridge = Fraction(1, 2 ** 26) * frac_of_float(b0)
    scale = float(np.sum(w * (np.abs(y) + np.abs(mu)))) + abs(b0) * SQRT_EPS
    bound = (10 * tol + 2e-7) * scale
    resid = T * pos - (1 - T) * neg - ridge
    res.count('balance tau=%s' % ('0.5' if tau == 0.5 else ('<0.5' if tau < 0.5 else '>0.5')))
    res.count('balance weights:' + d['weights'])
    nontriv = float(pos) > 0 and float(neg) > 0 and len(y) >= 3
    if unit is not None:
        res.count('balance y unit:%g' % unit)
    res.case(('balance', i, unit), sample=dict(tau=tau, n=len(y), m=int(B.shape[1]), pos=float(pos), neg=float(neg), resid=float(resid), ridge=float(ridge), bound=bound) if i < 2 else None,
             nontrivial=nontriv)
    if abs(resid) > frac_of_float(bound):
        res.violations.append(dict(what='converged ExpectileGAM fit does not balance the weighted residuals at the requested expectile', finding=None, input=inp,
                                   observed=dict(tau_pos=float(T * pos), one_minus_tau_neg=float((1 - T) * neg), ridge=float(ridge), residual=float(resid)),
                                   expected='|tau*pos - (1-tau)*neg - sqrt(eps)*b0| <= %g' % bound))
    ratio = quiet(gam._get_quantile_ratio, X, y)
    below = int(round(float(ratio) * len(y)))
    ob = coq_list(['(%s,%s,%s)' % (dylit(a), dylit(b), dylit(c)) for a, b, c in zip(w, y, mu)])
    cases.append('(BalCase %s %s %s %s %d)' % (dylit(tau), dylit(b0), ob, dylit(bound), below))
    meta.append(dict(kind='balance', tau=tau, n=len(y), m=int(B.shape[1]), tol=tol, describe=d))


# ----------------------------------------------------------------------------------------- expectile 1/2 vs LinearGAM(2 lam)
def half_case(res, rng, i):
    import pygam
    scn = expectile_scenario(rng, regime='n>m', max_n=60, max_m=16, weights=['float', 'none', 'int'][i % 3])
    scn['kw'].update(expectile=0.5, tol=1e-9, max_iter=300)
    d = gen_models.describe(scn)
    X, y = scn['X'], scn['y']
    fw = {} if scn['w'] is None else dict(weights=scn['w'].copy())
    try:
        eg = gen_models.build_gam(scn)
        quiet(eg.fit, X.copy(), y.copy(), **fw)
        kw = {k: v for k, v in scn['kw'].items() if k != 'expectile'}
        lin2 = pygam.LinearGAM(gen_terms.build_termlist([double_lam(s) for s in scn['specs']]), **kw)
        quiet(lin2.fit, X.copy(), y.copy(), **fw)
        lin1 = pygam.LinearGAM(gen_terms.build_termlist(scn['specs']), **kw)
        quiet(lin1.fit, X.copy(), y.copy(), **fw)
    except Exception as e:
        res.count('half: fit raised %s' % type(e).__name__)
        return
    if eg._constraint_l2 != 1e-3 or lin2._constraint_l2 != 1e-3:
        res.count('half: cholesky escalation, skipped')
        return
    a, b, c = quiet(eg.predict, X), quiet(lin2.predict, X), quiet(lin1.predict, X)
    sc = float(np.max(np.abs(y))) + 1e-300
    err = float(np.max(np.abs(a - b))) / sc
    sens = float(np.max(np.abs(a - c))) / sc      # how much doubling lam matters here: makes the case non-trivial
    res.count('half: lam matters' if sens > 1e-4 else 'half: lam immaterial')
    res.case(('half', i), sample=dict(n=len(y), err=err, difference_to_undoubled_lam=sens) if i < 1 else None, nontrivial=sens > 1e-4)
    if not (err <= 1e-6):
        # C18_half_is_linear_2lam_partial: the two fits differ exactly by the un-doubled ridge S = sqrt(eps) I:
        #   [B'wB + S + 2P] (b_lin - b_exp) = S b_exp   -- evaluate that prediction and accept only what it explains
        Bm = eg._modelmat(X).toarray()
        P2 = lin2._P().toarray()
        ww = np.ones(len(y)) if scn['w'] is None else np.asarray(scn['w'], dtype=np.float32).astype(float)
        M = (Bm.T * ww) @ Bm + P2 + SQRT_EPS * np.eye(Bm.shape[1])
        try:
            delta = Bm @ np.linalg.solve(M, SQRT_EPS * eg.coef_)
        except np.linalg.LinAlgError:
            delta = np.zeros(len(y))
        unexplained = float(np.max(np.abs((b - a) - delta))) / sc
        explained = unexplained <= 1e-6 + 1e-3 * float(np.max(np.abs(delta))) / sc
        res.count('half: differs by the ridge defect' if explained else 'half: unexplained difference')
        res.violations.append(dict(what='ExpectileGAM(expectile=0.5) fitted values differ from LinearGAM with doubled lam' +
                                   (' by exactly the effect of the ridge sqrt(eps) I, which doubling lam does not double' if explained else ''),
                                   finding=F_HALF if explained else None,
                                   input=dict(d, X=X.tolist(), y=y.tolist(), weights=None if scn['w'] is None else scn['w'].tolist()),
                                   observed=dict(max_relative_difference=err, predicted_by_ridge_defect=float(np.max(np.abs(delta))) / sc, unexplained=unexplained),
                                   expected='<= 1e-6 of max|y|'))


# ----------------------------------------------------------------------------------------- fit_quantile traces
def traced_fit_quantile(gam, X, y, quantile, max_iter, tol, weights):
    """runs gam.fit_quantile with ExpectileGAM.fit / _get_quantile_ratio wrapped (from this process; no source hooks)"""
    import pygam
    cls = pygam.ExpectileGAM
    orig_ratio, orig_fit = cls._get_quantile_ratio, cls.fit
    rec = dict(ratios=[], fits=[])

    def ratio(self, X_, y_):
        r = orig_ratio(self, X_, y_)
        rec['ratios'].append(float(r))
        return r

    def fit(self, *a, **k):
        ent = [float(self.expectile), False]
        rec['fits'].append(ent)
        out = orig_fit(self, *a, **k)
        ent[1] = True
        return out
    was_fitted = bool(gam._is_fitted)
    e0 = float(gam.expectile)
    cls._get_quantile_ratio, cls.fit = ratio, fit
    err = None
    try:
        quiet(gam.fit_quantile, X, y, quantile, max_iter=max_iter, tol=tol, weights=weights)
    except Exception as e:  # noqa
        err = e
    finally:
        cls._get_quantile_ratio, cls.fit = orig_ratio, orig_fit
    fits = rec['fits']
    if not was_fitted and fits:
        rec['initial'] = fits[0]
        fits = fits[1:]
    rec.update(e0=e0, refit_expectiles=[f[0] for f in fits], refits=sum(1 for f in fits if f[1]), error=err, final_e=float(gam.expectile))
    return rec


def fq_coq_case(quantile, tol, max_iter, rec):
    return '(FqCase %s %s %s %s %s %s %d %s %s)' % (
        flit(quantile), flit(tol), flit(rec['e0']), common.zlit(max_iter), coq_list([flit(r) for r in rec['ratios']]),
        coq_list([flit(e) for e in rec['refit_expectiles']]), rec['refits'], common.coq_bool(isinstance(rec['error'], ValueError)), flit(rec['final_e']))


def probe_trace(res, inp, quantile, tol, max_iter, rec, gam, X, y):
    """the property statement itself on the recorded run; returns True when the run ended through the stall exit
    (the bracket could not be halved any further in binary64)"""
    def viol(what, expected, observed, finding=None):
        res.violations.append(dict(what=what, input=inp, expected=expected, observed=observed, finding=finding))
    es = [rec['e0']] + rec['refit_expectiles']
    rs = rec['ratios']
    mn, mx = 0.0, 1.0          # the bracket the property describes, maintained independently of the implementation
    for k in range(len(rec['refit_expectiles'])):
        up = rs[k] < quantile
        if up:
            mn = es[k]
        else:
            mx = es[k]
        mid = (mx + mn) / 2.0
        if es[k + 1] != mid:
            viol('bisection step does not move the expectile to the midpoint of the bracket on the side indicated by ratio - quantile',
                 dict(direction='up' if up else 'down', bracket=[mn, mx], midpoint=mid), dict(step=k, ratio=rs[k], expectile_before=es[k], expectile_after=es[k + 1]))
        elif not (mn < mid < mx) or not (0.0 < mid < 1.0):
            # the correctly rounded midpoint collapsed onto an end of the bracket (binary64 saturation, former S11): it must not be stored
            viol('fit_quantile stored an expectile that is not strictly inside its bracket / (0,1)', 'stop: the bracket cannot be halved any further',
                 dict(step=k, bracket=[mn, mx], expectile_after=es[k + 1]))
        elif (es[k + 1] > es[k]) != up:
            viol('bisection step moves the expectile away from the requested quantile', 'expectile %s' % ('up' if up else 'down'),
                 dict(step=k, ratio=rs[k], expectile_before=es[k], expectile_after=es[k + 1]))
    if rec['error'] is not None:
        viol('fit_quantile raised', 'a fitted model', dict(error='%s: %s' % (type(rec['error']).__name__, rec['error']), expectile=rec['final_e'], refits=rec['refits'],
                                                         max_iter=max_iter, last_ratio=rs[-1] if rs else None))
        return False
    if not (0.0 < rec['final_e'] < 1.0) or rec['final_e'] != es[-1]:
        viol('fit_quantile left the model with an expectile that is not the last fitted one strictly inside (0,1)', es[-1], rec['final_e'])
    final_ratio = float(quiet(gam._get_quantile_ratio, X, y))
    exact = Fraction(int(np.sum(quiet(gam.predict, X) > y)), len(y))
    if frac_of_float(final_ratio) != frac_of_float(float(exact.numerator) / exact.denominator):
        viol('_get_quantile_ratio is not the fraction of training targets below the prediction', float(exact), final_ratio)
    within = abs(frac_of_float(final_ratio) - frac_of_float(quantile)) <= frac_of_float(tol)
    # third legitimate exit: the next midpoint equals an end of the bracket, i.e. no representable expectile is left to try
    stalled = False
    if not within and len(rs) == rec['refits'] + 1 and rec['refits'] < max_iter:
        if rs[-1] < quantile:
            mn = es[-1]
        else:
            mx = es[-1]
        stalled = (mx + mn) / 2.0 in (mn, mx)
    if not (within or rec['refits'] == max_iter or stalled):
        viol('fit_quantile returned a model that is neither within tol of the quantile nor out of budget (and the bracket could still be halved)',
             '|ratio - quantile| <= tol or refits = max_iter', dict(final_ratio=final_ratio, refits=rec['refits'], bracket=[mn, mx]))
    if rec['refits'] > max_iter:
        viol('fit_quantile made more refits than max_iter', '<= %d' % max_iter, rec['refits'])
    return stalled


S11_X = [[v] for v in np.linspace(0, 1, 12)]
S11_Y = [0.1, 0.08, 0.73, 0.76, 0.74, 1.19, 0.61, 0.84, 0.67, 0.57, 0.09, 0.39]


def s11_witness(variant=0):   # S11 was repaired in /repo (ce282d1): these are now regression probes
    """tiny data set, a quantile the fit cannot reach from below, tol below the resolution 1/12 of the ratio"""
    import pygam
    from pygam import s
    X = np.array(S11_X, dtype=float)
    y = np.array(S11_Y, dtype=float) * (1.0 if variant == 0 else 3.5) + (0.0 if variant == 0 else 2.0)
    quantile, tol, max_iter = [(0.999, 1e-9, 100), (0.9999, 1e-6, 60)][variant]
    gam = pygam.ExpectileGAM(s(0, n_splines=5 if variant == 0 else 6))
    return gam, X, y, quantile, tol, max_iter


def run(res):
    rng = common.rng_for(res.seed, PROP)
    quick = res.tier == 'quick'
    res.rule = ('(a) balance: seeded ExpectileGAM scenarios (term mixes with an intercept at a random position, n>m / n=m, weights none / float32 / integer / with zeros, '
                'expectile in {0.1,0.25,0.5,0.8,0.93} and uniform(0.02,0.98), tol in {1e-9,1e-6,1e-4}); for each converged fit the identity tau*sum_{y>mu} w(y-mu) = '
                '(1-tau)*sum_{y<=mu} w(mu-y) + sqrt(eps)*b0 is evaluated in exact rationals from predict(X) (Python Fractions: direct probe; Coq dyadics with the model '
                'Model/Expectile.v: correspondence) with tolerance (10 tol + 2e-7) * sum w(|y|+|mu|) (2e-7: pyGAM inverts the float32 weights in float32); non-trivial when both '
                'residual sums are positive.  (b) expectile 0.5 vs LinearGAM with every lam doubled: fitted values within 1e-6 of max|y| (non-trivial when the undoubled LinearGAM differs by > 1e-4). '
                '(c) fit_quantile traces: ExpectileGAM.fit and _get_quantile_ratio are wrapped from the harness; quantile uniform(0.02,0.98) or extreme, tol in {0.05,0.01,0.001,1e-9}, '
                'max_iter 1..25, starting expectile random, model fitted or not beforehand; the recorded ratios are fed to the binary64 bisection machine built from the generated loop '
                'pieces and Coq compares the expectile sequence bit for bit, the number of refits, ValueError or not and the final expectile; the property statement is probed directly '
                '(final ratio within tol or budget used or the bracket cannot be halved any further, direction of each step, expectile strictly inside (0,1)).  (a2) the balance scenarios again with the targets in small units (factor 1e-3 .. 1e-8, tol 1e-6 / 1e-8 / 1e-4): scale equivariance -- every fit that reports convergence must balance to the same relative accuracy.  (c2) directed fit_quantile traces: n = 200, quantile 2e-6..3e-6 above k/200, tol 1e-6, max_iter 25: exit iff within tol, stalled or max_iter refits.  (d) argument rejection of quantile / tol / max_iter.  (e) regression probes for the repaired S11: the former witnesses (12 points, quantile 0.999, tol 1e-9, max_iter 100) must stop through the stall exit without ValueError, expectile strictly inside (0,1).')
    common.standard_prove(res, 'Props/C18.v', gen_targets=['links', 'dists', 'stats', 'fitquantile'], extra=['Model/C18Check.vo'])
    warnings.simplefilter('ignore')
    import pygam
    cases, meta = [], []
    # (a)
    for i in range(42 if quick else 500):
        balance_case(res, rng, i, cases, meta)
    # (a') the same in small units (targets of order 1e-3 .. 1e-8): every fit that reports convergence must balance to the same RELATIVE accuracy
    for i in range(24 if quick else 240):
        balance_case(res, rng, i, cases, meta, unit=10.0 ** -(3 + i % 6))
    # (b)
    for i in range(14 if quick else 150):
        half_case(res, rng, i)
    # (c)
    for i in range(36 if quick else 400):
        scn = expectile_scenario(rng, regime='n>m', max_n=50 if quick else 120, max_m=12, allow_tensor=False, weights=['none', 'float', 'int'][i % 3])
        e0 = [0.5, 0.5, None][i % 3] or round(rng.uniform(0.05, 0.95), 3)
        scn['kw'].update(expectile=e0, tol=1e-4, max_iter=100)
        quantile = round(rng.uniform(0.02, 0.98), 3) if i % 6 else [0.001, 0.999][(i // 6) % 2]
        tol = [0.05, 0.01, 0.001, 1e-9][i % 4]
        max_iter = rng.choice([1, 2, 3, 5, 8, 12, 20, 25])
        X, y, w = scn['X'], scn['y'], scn['w']
        inp = dict(gen_models.describe(scn), quantile=quantile, tol=tol, max_iter=max_iter, prefit=bool(i % 2), X=X.tolist(), y=y.tolist(), weights=None if w is None else w.tolist())
        try:
            gam = gen_models.build_gam(scn)
            if i % 2:
                quiet(gam.fit, X.copy(), y.copy(), **({} if w is None else dict(weights=w.copy())))
        except Exception as e:
            res.count('trace: setup raised %s' % type(e).__name__)
            continue
        rec = traced_fit_quantile(gam, X.copy(), y.copy(), quantile, max_iter, tol, None if w is None else w.copy())
        if rec['error'] is not None and not rec['ratios']:
            res.count('trace: first fit raised %s' % type(rec['error']).__name__)
            continue
        st_exit = probe_trace(res, inp, quantile, tol, max_iter, rec, gam, X, y)
        cases.append(fq_coq_case(quantile, tol, max_iter, rec))
        meta.append(dict(kind='trace', quantile=quantile, tol=tol, max_iter=max_iter, e0=rec['e0'], ratios=rec['ratios'], expectiles=rec['refit_expectiles'],
                         refits=rec['refits'], describe=gen_models.describe(scn)))
        stop = 'budget' if rec['refits'] == max_iter else ('error' if rec['error'] is not None else ('stall' if st_exit else 'within-tol'))
        res.count('trace stop:' + stop)
        res.count('trace refits:%s' % ('0' if rec['refits'] == 0 else ('1-3' if rec['refits'] <= 3 else '4+')))
        res.case(('trace', i), sample=dict(quantile=quantile, tol=tol, max_iter=max_iter, ratios=rec['ratios'][:6], expectiles=rec['refit_expectiles'][:6]) if i in (0, 3) else None,
                 nontrivial=rec['refits'] >= 1)
    # (c') directed traces: n = 200 (the ratio moves in steps of 1/200), quantile 2e-6 .. 3e-6 above a grid value, tol = 1e-6: the request
    #      cannot be met, the search must run out of its budget (or stall) -- never return with a gap in (tol, tol + something]
    for i in range(4 if quick else 24):
        nprng = np.random.RandomState(rng.randrange(1 << 30))
        Xd = nprng.uniform(0, 10, (200, 1))
        yd = np.sin(Xd[:, 0]) + nprng.normal(0, 0.5, 200)
        k = [180, 50, 100, 20, 150, 190][i % 6]
        quantile = k / 200.0 + rng.uniform(2e-6, 3e-6)
        tol, max_iter = 1e-6, 25
        gam = pygam.ExpectileGAM(pygam.s(0, n_splines=[20, 10][i % 2]))
        inp = dict(directed='n=200, quantile just above %d/200' % k, quantile=quantile, tol=tol, max_iter=max_iter, X=Xd.tolist(), y=yd.tolist(), model='ExpectileGAM(s(0))')
        rec = traced_fit_quantile(gam, Xd.copy(), yd.copy(), quantile, max_iter, tol, None)
        if rec['error'] is not None and not rec['ratios']:
            res.count('directed trace: first fit raised %s' % type(rec['error']).__name__)
            continue
        st_exit = probe_trace(res, inp, quantile, tol, max_iter, rec, gam, Xd, yd)
        hit_grid = any(abs(r - k / 200.0) < 1e-12 for r in rec['ratios'])
        res.count('directed trace: ratio %s the grid value below the quantile' % ('hit' if hit_grid else 'never hit'))
        res.count('directed trace stop:' + ('budget' if rec['refits'] == max_iter else ('stall' if st_exit else 'other')))
        res.case(('directed', i), sample=dict(quantile=quantile, refits=rec['refits'], ratios=rec['ratios'][-4:]) if i < 1 else None, nontrivial=hit_grid)
        cases.append(fq_coq_case(quantile, tol, max_iter, rec))
        meta.append(dict(kind='trace', directed=k, quantile=quantile, tol=tol, max_iter=max_iter, refits=rec['refits'], ratios=rec['ratios']))
    # (d) argument checks
    rs = np.random.RandomState(rng.randrange(1 << 30))
    Xa = rs.rand(20, 1)
    ya = np.sin(5 * Xa[:, 0]) + 0.2 * rs.randn(20)
    for (q, t, mi) in [(0.0, 0.01, 5), (1.0, 0.01, 5), (-0.25, 0.01, 5), (1.5, 0.01, 5), (0.5, 0.0, 5), (0.5, -1.0, 5), (0.5, 0.01, 0), (0.5, 0.01, -3),
                       (0.5, 0.01, 1), (1e-9, 0.5, 1), (0.999999, 1e-12, 1), (0.3, 2.0, 1)]:
        gam = pygam.ExpectileGAM(pygam.s(0, n_splines=5))
        rec = traced_fit_quantile(gam, Xa.copy(), ya.copy(), q, mi, t, None)
        rejected = isinstance(rec['error'], ValueError) and not rec['fits'] and not rec['ratios']
        expected = q <= 0 or q >= 1 or t <= 0 or mi <= 0
        res.case(('args', q, t, mi), nontrivial=True)
        res.count('args rejected' if rejected else 'args accepted')
        if rejected != expected or (rec['error'] is not None and not rejected):
            res.violations.append(dict(what='fit_quantile argument validation', finding=None, input=dict(quantile=q, tol=t, max_iter=mi),
                                       expected='ValueError before any fit' if expected else 'accepted', observed=repr(rec['error'])))
        cases.append('(ArgCase %s %s %s %s)' % (flit(q), flit(t), common.zlit(mi), common.coq_bool(rejected)))
        meta.append(dict(kind='args', quantile=q, tol=t, max_iter=mi))
    # (d') a fitted model validates its arguments before the loop even when no refit is needed (Gen_fq_validated_before_loop)
    for bad, wv in (('nan weight', np.where(np.arange(20) == 3, np.nan, 1.0)), ('short weights', np.ones(19)), ('valid weights', np.ones(20))):
        gam = pygam.ExpectileGAM(pygam.s(0, n_splines=5))
        quiet(gam.fit, Xa.copy(), ya.copy())
        rec = traced_fit_quantile(gam, Xa.copy(), ya.copy(), 0.5, 3, 1.0, wv)       # tol = 1: the first ratio is within tol, nothing is refitted
        rejected = isinstance(rec['error'], ValueError) and not rec['ratios'] and not rec['fits']
        res.case(('prevalidation', bad), nontrivial=True)
        res.count('fitted-model validation: ' + ('rejected' if rejected else 'accepted'))
        if rejected != (bad != 'valid weights') or (rec['error'] is not None and not rejected):
            res.violations.append(dict(what='fit_quantile on a fitted model: validation of the weights before the bisection', finding=None,
                                       input=dict(weights=bad, quantile=0.5, tol=1.0, max_iter=3), expected='ValueError before any ratio is evaluated' if bad != 'valid weights' else 'accepted',
                                       observed=repr(rec['error'])))
    # (e) regression probes for the repaired S11 (witness of C18_bisect_float_saturation_stops replayed on the implementation):
    #     the call must terminate without ValueError, through the stall exit, with an expectile strictly inside (0,1)
    for variant in (0, 1):
        gam, X, y, quantile, tol, max_iter = s11_witness(variant)
        rec = traced_fit_quantile(gam, X.copy(), y.copy(), quantile, max_iter, tol, None)
        inp = dict(witness='harness/props/c18.py:s11_witness(%d)' % variant, X=X.tolist(), y=y.tolist(), quantile=quantile, tol=tol, max_iter=max_iter, model="ExpectileGAM(s(0))")
        stalled = probe_trace(res, inp, quantile, tol, max_iter, rec, gam, X, y)
        res.count('saturation probe: stopped by the stall exit' if stalled else 'saturation probe: other exit')
        res.case(('saturation', variant), sample=dict(refits=rec['refits'], final_expectile=rec['final_e'], error=str(rec['error'])), nontrivial=True)
        if rec['error'] is None and not (0.0 < rec['final_e'] < 1.0 and rec['refits'] < max_iter and stalled):
            res.violations.append(dict(what='saturation probe (former S11 witness) did not stop through the stall exit with an expectile strictly inside (0,1)', finding=None,
                                       input=inp, expected='stall exit after 52 refits, expectile 1 - 2^-53', observed=dict(refits=rec['refits'], expectile=rec['final_e'])))
        cases.append(fq_coq_case(quantile, tol, max_iter, rec))
        meta.append(dict(kind='trace', saturation_probe=variant, quantile=quantile, tol=tol, max_iter=max_iter, refits=rec['refits']))

    with common.CaseDir(PROP) as cd:
        failing, errors = common.run_bool_cases(cd, HEADER, cases, 'check_case', shard=max(4, len(cases) // 16 + 1))
        codes = {}
        if failing:
            txt = HEADER + 'Definition cs := %s.\nInductive MARK := FAILING.\nEval vm_compute in (FAILING, map check_code cs).\n' % coq_list([cases[i] for i in failing[:8]])
            r = cd.run_files([('codes.v', txt)])
            got = common.parse_nat_list(r['codes.v'][1])
            if got:
                codes = dict(zip(failing[:8], got[0][1]))
    for name, out in errors:
        res.obligation('correspondence-file:' + name, False, detail=out, kind='correspondence')
    res.obligation('correspondence:balance of converged fits / fit_quantile traces / argument checks agree with the models (exact arithmetic, bit-exact binary64)',
                   not failing and not errors, detail='failing cases %s' % [(meta[i].get('kind'), CODES.get(codes.get(i), '?')) for i in failing[:8]], kind='correspondence')
    for i in failing:
        m = dict(meta[i])
        res.violations.append(dict(what='implementation disagrees with the C18 model: ' + CODES.get(codes.get(i), 'see check_code'), finding=None,
                                   input=m, observed='check_code = %s' % codes.get(i), expected='0'))
    res.extra['tolerances'] = {'balance': '(10 tol + 2e-7) * sum w (|y| + |mu|), exact rational evaluation', 'expectile 0.5 vs LinearGAM(2 lam)': '1e-6 of max|y| on fitted values',
                               'fit_quantile expectile sequence': 'exact binary64 equality', 'ratio': 'exact'}
    res.trusted.append('PrimFloat primitives (kernel-implemented IEEE binary64 add/sub/div/abs/compare) are reported by Print Assumptions for C18_bisect_float_saturation_stops (closed computations; that theorem uses no FloatAxioms)')
    res.trusted.append('Flocq (binary64 round-to-nearest-even as FLT rounding) for C18_binary64_rounding_contract, and Flocq.IEEE754.PrimFloat (Prim2B, add/sub/div/abs/eqb/ltb/leb_equiv) for the refinement theorems')
    res.trusted.append('standard-library axioms Coq.Floats.FloatAxioms used ONLY by C18_primfloat_midpoint_refines and C18_bisect_invariant_binary64 (coq/Proofs/C18PrimFlocq.v): '
                       'add_spec, sub_spec, div_spec, abs_spec, eqb_spec, ltb_spec, leb_spec, Prim2SF_valid, SF2Prim_Prim2SF, Prim2SF_SF2Prim -- they specify the primitive float operations by the '
                       'SpecFloat reference implementation; with them the PrimFloat bisection machine is proved to refine the Flocq-rounded real machine step by step for finite inputs in range')
    res.trusted.append('still by correspondence only: that CPython evaluates the loop as the PrimFloat machine does (bit-exact replay of recorded fit_quantile traces every run)')
    res.trusted.append('the refits inside fit_quantile are an oracle (ratio sequence) in the bisection theorems: nothing is proved about how a refit changes the ratio')


def replay(res, rp):
    run(res)
