"""C09 -- confidence / prediction / partial-dependence intervals are the stated quantiles on the link scale."""
import math
import warnings
from fractions import Fraction

import numpy as np
import scipy.stats

import common
from common import rlit, rlit_frac
import gen_models

PROP = 'C09'
HEADER = """From Coq Require Import Reals Lra List.
From Interval Require Import Tactic.
From PG Require Import Base.Ops Model.Intervals Gen.Links Gen.Intervals Model.C09Check.
Import ListNotations.
Open Scope R_scope."""
REL = 1e-9
LINK_MU = {'LIdentity': 'Gen_IdentityLink_mu 1', 'LLog': 'Gen_LogLink_mu 1', 'LLogit': 'Gen_LogitLink_mu 1'}


def fit(scn, **over):
    gam = gen_models.build_gam(scn, **over)
    with np.errstate(all='ignore'):
        if scn['w'] is None:
            gam.fit(scn['X'].copy(), scn['y'].copy())
        else:
            gam.fit(scn['X'].copy(), scn['y'].copy(), weights=scn['w'].copy())
    return gam


def query_rows(rng, scn, k):
    """k query rows: training rows, interior points and extrapolation rows (numeric features moved up to one range outside
    the data; factor features keep observed levels)"""
    X = scn['X']
    n, nf = X.shape
    rows, kinds = [], []
    for r in range(k):
        base = X[rng.randrange(n)].copy()
        kind = ['train', 'interior', 'extrapolate', 'extrapolate'][r % 4]
        if kind != 'train':
            for j in range(nf):
                if j in scn['factor_feats']:
                    continue
                lo, hi = float(X[:, j].min()), float(X[:, j].max())
                span = (hi - lo) or 1.0
                if kind == 'interior':
                    base[j] = rng.uniform(lo, hi)
                else:
                    base[j] = (hi + rng.uniform(0.01, 1.0) * span) if rng.random() < 0.5 else (lo - rng.uniform(0.01, 1.0) * span)
        rows.append(base)
        kinds.append(kind)
    return np.array(rows), kinds


def draw_levels(rng):
    k = rng.choice([1, 2, 3, 4])
    qs = []
    for _ in range(k):
        r = rng.random()
        if r < 0.15:
            qs.append(10 ** rng.uniform(-9, -2))
        elif r < 0.3:
            qs.append(1 - 10 ** rng.uniform(-9, -2))
        elif r < 0.4:
            qs.append(0.5)
        else:
            qs.append(rng.uniform(0.001, 0.999))
    return qs


class Ref:
    """independent recomputation from the fitted attributes (coef_, statistics_['cov'], scale, edof, n_samples); the
    reference quantiles come from SciPy's ppf (trusted)"""

    def __init__(self, gam, Xq):
        self.gam = gam
        self.B = gam._modelmat(Xq).toarray()
        self.cov = np.asarray(gam.statistics_['cov'], dtype=float)
        self.coef = np.asarray(gam.coef_, dtype=float)
        self.n = gam.statistics_['n_samples']
        self.edof = float(gam.statistics_['edof'])
        self.scale = float(gam.distribution.scale)
        self.known = bool(gam.distribution._known_scale)

    def z(self, q):
        return float(scipy.stats.norm.ppf(q)) if self.known else float(scipy.stats.t.ppf(q, df=self.n - self.edof))

    def parts(self, idxs, prediction):
        Bt = self.B[:, idxs]
        C = self.cov[np.ix_(idxs, idxs)]
        lp = Bt @ self.coef[idxs]
        lpabs = np.abs(Bt) @ np.abs(self.coef[idxs])
        var = np.einsum('ij,jk,ik->i', Bt, C, Bt)
        varabs = np.einsum('ij,jk,ik->i', np.abs(Bt), np.abs(C), np.abs(Bt))
        if prediction:
            var = var + self.scale
            varabs = varabs + abs(self.scale)
        return lp, lpabs, var, varabs

    def bracket(self, lp, lpabs, var, varabs, z):
        """[lo, hi] on the link scale allowed for lp + z sqrt(var): 1e-9 relative to the size of the terms, plus the effect
        of an absolute error 1e-13 * (sum of |terms| of the quadratic form) on the variance (cancellation in float)"""
        d = 1e-13 * varabs
        s = math.sqrt(max(var, 0.0))
        s_lo, s_hi = math.sqrt(max(var - d, 0.0)), math.sqrt(max(var + d, 0.0))
        t = REL * (lpabs + abs(z) * s) + abs(z) * (s_hi - s_lo) + 1e-300
        c = lp + z * s
        return c - t, c + t, t


def mu_of(gam, x):
    with np.errstate(all='ignore'):
        return float(gam.link.mu(np.array([x], dtype=float), gam.distribution)[0])


def compare(res, ref, got, idxs, prediction, xform, qs, what, d, Xq, goals, meta, link, fl, term_idxs, coq_budget):
    """got: array (rows, len(qs)) from the implementation"""
    gam = ref.gam
    lp, lpabs, var, varabs = ref.parts(idxs, prediction)
    got = np.asarray(got, dtype=float)
    if got.shape != (len(Xq), len(qs)):
        res.violations.append(dict(what='%s: result has shape %s, expected %s' % (what, got.shape, (len(Xq), len(qs))), finding=None, input=d,
                                   observed=list(got.shape), expected=[len(Xq), len(qs)]))
        return
    for r in range(len(Xq)):
        for c, q in enumerate(qs):
            z = ref.z(q)
            lo, hi, t = ref.bracket(lp[r], lpabs[r], var[r], varabs[r], z)
            v = float(got[r, c])
            if xform:
                elo, ehi = mu_of(gam, lo), mu_of(gam, hi)
                if math.isfinite(elo) and math.isfinite(ehi):
                    slack = 1e-12 * max(abs(elo), abs(ehi)) + 1e-300
                    ok = (elo - slack <= v <= ehi + slack)
                else:       # the response-scale bound overflows binary64 (exp of a large link-scale bound)
                    ok = (elo <= v <= ehi) or (math.isfinite(elo) and v >= elo * (1 - 1e-12))
                    res.count('response-scale overflow')
                expected = mu_of(gam, lp[r] + z * math.sqrt(max(var[r], 0.0)))
            else:
                ok = lo <= v <= hi
                expected = lp[r] + z * math.sqrt(max(var[r], 0.0))
            if var[r] < 1e-13 * varabs[r] and not math.isfinite(v):
                res.count('variance lost to rounding (not compared)')
                continue
            res.case((d['index'], what, r, q), nontrivial=var[r] > 0 and abs(z) > 0,
                     sample=dict(model=d['cls'], method=what, level=q, z=z, lp=float(lp[r]), var=float(var[r]), bound=v) if (r == 0 and c == 0) else None)
            res.count('%s:%s' % (what, 'normal' if ref.known else 't'))
            if not ok:
                res.violations.append(dict(
                    what='%s bound differs from inverse-link(lp + z_q sqrt(var)) recomputed from coef_, cov, scale, edof, n_samples' % what, finding=None,
                    input=dict(d, X_row=[float(x) for x in Xq[r]], level=q, known_scale=ref.known, n_samples=int(ref.n), edof=ref.edof, scale=ref.scale,
                               coef_indices=[int(i) for i in idxs]),
                    observed=v, expected=dict(value=expected, z_q=z, lp=float(lp[r]), var=float(var[r]), tolerance_link_scale=t)))
            # Coq-side execution of the generated definitions on the same inputs (a subset, small blocks first)
            elif coq_budget[0] > 0 and len(idxs) <= 10 and len(ref.coef) <= 16 and (r + c) % 2 == 0 and var[r] > 1e-9 * varabs[r] and math.isfinite(v) and abs(z) < 40 and link in LINK_MU:
                coq_budget[0] -= 1
                dfl = float(ref.n - ref.edof)
                ppf_n = '(fun _ => %s)' % rlit(z)
                ppf_t = '(fun df _ => %s * (df / %s))' % (rlit(z), rlit(dfl)) if not ref.known else '(fun _ _ => 0)'
                covl = '[' + '; '.join('[' + '; '.join(rlit(x) for x in row) + ']' for row in ref.cov) + ']'
                rowl = '[' + '; '.join(rlit(x) for x in ref.B[r]) + ']'
                coefl = '[' + '; '.join(rlit(x) for x in ref.coef) + ']'
                idl = '[' + '; '.join('%d%%nat' % i for i in idxs) + ']'
                expr = ('Gen_bound %s %s (%s) %s %s %s %s %s %s (select %s %s) (Gen_lp (select %s %s) %s %s) (qf_prediction %s) (qf_xform %s) %s'
                        % (ppf_n, ppf_t, LINK_MU[link], 'true' if ref.known else 'false', rlit(ref.scale), rlit(float(ref.n)), rlit(ref.edof), covl, idl,
                           idl, rowl, idl, rowl, coefl, idl, fl, fl, rlit(q)))
                if xform:
                    tol = max(abs(mu_of(gam, hi) - v), abs(v - mu_of(gam, lo)), 0.0) + 2e-9 * abs(v) + 1e-300
                else:
                    tol = 2 * t
                goals.append('Rabs (%s - %s) <= %s' % (expr, rlit(v), rlit_frac(Fraction(tol))))
                meta.append(dict(d, method=what, level=q, X_row=[float(x) for x in Xq[r]], value=v))


def monotone_checks(res, gam, ref, Xq, d, rng):
    """the derived statements evaluated directly on the implementation"""
    cls = d['cls']
    qs = sorted(set(draw_levels(rng) + draw_levels(rng) + [0.5]))
    with np.errstate(all='ignore'):
        ci = np.asarray(gam.confidence_intervals(Xq, quantiles=qs), dtype=float)
        pred = np.asarray(gam.predict_mu(Xq), dtype=float)

    def bad(what, observed, expected, extra=None):
        res.violations.append(dict(what=what, finding=None, input=dict(d, X=[[float(x) for x in r] for r in Xq], **(extra or {})), observed=observed, expected=expected))
    fin = np.isfinite(ci).all(axis=1)
    # rounding scale of a bound: relative to its size and to the size of the terms that cancel in the linear predictor (sum_j |B_ij coef_j|)
    lpabs_all = np.abs(ref.B) @ np.abs(ref.coef)
    # ... and, at the median, to the half-width scale: the t quantile at 1/2 is a rounding-size number, not exactly 0
    sd_pred = np.sqrt(np.maximum(ref.parts(list(range(len(ref.coef))), True)[2], 0.0))
    slack = 1e-12 * (np.abs(ci).max(axis=1, initial=0.0) + lpabs_all + sd_pred + 1e-300)
    res.case((d['index'], 'ordered'))
    if ((np.diff(ci, axis=1) < -slack[:, None]) & fin[:, None]).any():
        bad('confidence bounds are not non-decreasing in the quantile level', ci.tolist(), 'non-decreasing along increasing levels', dict(levels=qs))
    k = qs.index(0.5)
    res.case((d['index'], 'bracket'))
    if (fin & (np.abs(ci[:, k] - pred) > 1e-9 * (np.abs(pred) + 1e-300))).any():
        bad('the bound at level 1/2 is not the prediction', ci[:, k].tolist(), pred.tolist())
    for c, q in enumerate(qs):
        if q < 0.5 and (fin & (ci[:, c] > pred + slack)).any():
            bad('a lower bound (level < 1/2) lies above the prediction', ci[:, c].tolist(), pred.tolist(), dict(level=q))
        if q > 0.5 and (fin & (ci[:, c] < pred - slack)).any():
            bad('an upper bound (level > 1/2) lies below the prediction', ci[:, c].tolist(), pred.tolist(), dict(level=q))
    w1 = rng.uniform(0.01, 0.98)
    w2 = rng.uniform(w1, 0.999)
    with np.errstate(all='ignore'):
        a = np.asarray(gam.confidence_intervals(Xq, width=w1), dtype=float)
        b = np.asarray(gam.confidence_intervals(Xq, width=w2), dtype=float)
        aq = np.asarray(gam.confidence_intervals(Xq, quantiles=[(1 - w1) / 2, (1 + w1) / 2]), dtype=float)
    res.case((d['index'], 'nested', w1, w2))
    okf = np.isfinite(a).all(axis=1) & np.isfinite(b).all(axis=1)
    if (okf & ((b[:, 0] > a[:, 0] + slack) | (a[:, 0] > a[:, 1] + slack) | (a[:, 1] > b[:, 1] + slack))).any():
        bad('intervals do not nest as the width grows', dict(narrow=a.tolist(), wide=b.tolist()), 'wide contains narrow', dict(widths=[w1, w2]))
    res.case((d['index'], 'width=quantiles', w1))
    if not np.allclose(a, aq, rtol=1e-10, atol=0, equal_nan=True):
        bad('width w differs from quantiles [(1-w)/2, (1+w)/2]', a.tolist(), aq.tolist(), dict(width=w1))
    if cls == 'LinearGAM':
        qs2 = sorted(draw_levels(rng))
        with np.errstate(all='ignore'):
            c_ = np.asarray(gam.confidence_intervals(Xq, quantiles=qs2), dtype=float)
            p_ = np.asarray(gam.prediction_intervals(Xq, quantiles=qs2), dtype=float)
        res.case((d['index'], 'pred-contains-conf'))
        for c, q in enumerate(qs2):
            f2 = np.isfinite(c_[:, c]) & np.isfinite(p_[:, c])
            if q <= 0.5 and (f2 & (p_[:, c] > c_[:, c] + slack)).any() or q >= 0.5 and (f2 & (p_[:, c] < c_[:, c] - slack)).any():
                bad('prediction interval does not contain the confidence interval', dict(prediction=p_[:, c].tolist(), confidence=c_[:, c].tolist()),
                    'prediction bound further from the centre', dict(level=q))
    # partial dependence on the link scale: level 1/2 is the partial dependence itself, never passed through the inverse link
    for t, term in enumerate(gam.terms):
        if term.isintercept:
            continue
        with np.errstate(all='ignore'):
            pd, iv = gam.partial_dependence(term=t, X=Xq, quantiles=[0.25, 0.5, 0.75])
        pd, iv = np.asarray(pd, dtype=float), np.asarray(iv, dtype=float)
        res.case((d['index'], 'pdep-centre', t))
        f3 = np.isfinite(iv).all(axis=1)
        if (f3 & (np.abs(iv[:, 1] - pd) > 1e-9 * (np.abs(pd) + 1e-300))).any() or (f3 & ((iv[:, 0] > pd + 1e-12 * np.abs(pd)) | (iv[:, 2] < pd - 1e-12 * np.abs(pd)))).any():
            bad('partial-dependence interval is not centred on the partial dependence on the link scale', iv.tolist(), pd.tolist(), dict(term=t))


def forced_fractional_df(rng, cls):
    """a fitted scenario of an unknown-scale class with 0 < n_samples - edof < 1 (fewer rows than coefficients, light penalty):
    9 or 8 rows, s(0, n_splines=20); lam is lowered until the residual degrees of freedom fall into (0, 1)"""
    nprng = np.random.RandomState(rng.randrange(1 << 30))
    for attempt in range(6):
        n = rng.choice([9, 8, 10])
        x = np.sort(nprng.rand(n))
        sig = np.sin(5 * x + rng.uniform(0, 3))
        y = sig + 0.3 * nprng.randn(n) if cls in ('LinearGAM', 'ExpectileGAM') else np.exp(0.5 * sig) * nprng.gamma(8.0, 1 / 8.0, size=n)
        for lam in (0.1, 0.05, 0.03, 0.01, 0.003, 0.001, 0.0003, 0.0001):
            spec = dict(kind='s', feature=0, n_splines=20, spline_order=3, lam=[lam], penalties=['auto'], constraints=[None], basis='ps', by=None,
                        dtype='numerical', edge_knots=None)
            kw = dict(max_iter=100, tol=1e-6, fit_intercept=False)
            if cls == 'ExpectileGAM':
                kw['expectile'] = 0.5
            scn = dict(cls=cls, specs=[spec], X=x[:, None].copy(), y=y.copy(), w=None, kw=kw, regime='n<m', m=20, n=n, factor_feats=())
            try:
                gam = fit(scn)
            except ValueError:
                continue
            df = gam.statistics_['n_samples'] - gam.statistics_['edof']
            if 1e-3 < df < 0.999 and np.isfinite(gam.coef_).all() and np.isfinite(gam.statistics_['cov']).all():
                return scn, gam
            if df <= 1e-3:
                break
    return None, None


def refit_same_object(res, gam, scn, d, Xq, qs, link, variant):
    k = max(3, (2 * scn['n']) // 3)
    Xs, ys = scn['X'][:k].copy(), scn['y'][:k].copy()
    ws = None if scn['w'] is None else scn['w'][:k].copy()
    try:
        with warnings.catch_warnings(), np.errstate(all='ignore'):
            warnings.simplefilter('ignore')
            if variant == 'fit':
                gam.fit(Xs, ys, weights=ws)
                hist = 'fit(all rows); interval queries; SAME object: fit(first %d rows); confidence_intervals with the earlier levels' % k
            else:
                gam.gridsearch(Xs, ys, weights=ws, lam=np.logspace(-1, 2, 3), keep_best=True, progress=False)
                hist = 'fit(all rows); interval queries; SAME object: gridsearch(first %d rows, lam=logspace(-1,2,3), keep_best=True); confidence_intervals with the earlier levels' % k
        ref2 = Ref(gam, Xq)
        ok2 = np.isfinite(gam.coef_).all() and np.isfinite(gam.statistics_['cov']).all() and (ref2.known or ref2.n - ref2.edof > 1e-6)
    except Exception as e:      # a refit may legitimately fail (too few rows, non-convergence ...): count, the model is not used afterwards
        res.count('refit of a queried model (%s) raised %s' % (variant, type(e).__name__))
        return
    if not ok2:
        res.count('refit of a queried model (%s): degenerate fit, not compared' % variant)
        return
    res.count('refit of a queried model (%s), intervals compared again' % variant)
    d2 = dict(d, history=hist)
    idx = list(range(len(ref2.coef)))
    with np.errstate(all='ignore'):
        got = gam.confidence_intervals(Xq, quantiles=qs)
    compare(res, ref2, got, idx, False, True, qs, 'confidence_intervals', d2, Xq, [], [], link, 'Gen_flags_confidence_intervals', idx, [0])
    for t, term in enumerate(gam.terms):
        if term.isintercept:
            continue
        tidx = list(gam.terms.get_coef_indices(t))
        with np.errstate(all='ignore'):
            pd, iv = gam.partial_dependence(term=t, X=Xq, quantiles=qs)
        compare(res, ref2, iv, tidx, False, False, qs, 'partial_dependence', dict(d2, term=t), Xq, [], [], link, 'Gen_flags_partial_dependence', tidx, [0])
        break


UNKNOWN_SCALE = ['LinearGAM', 'GammaGAM', 'InvGaussGAM', 'ExpectileGAM']
REJECT_LEVELS = [[0.0], [1.0], [0.3, 1.0], [-0.1, 0.5], [0.5, 1.5], [float('inf')], [float('-inf'), 0.2], [1.0000000000000002], [-5e-324]]
REJECT_WIDTHS = [1.0, 1.5, -1.0, -3.0, float('inf')]
ACCEPT_WIDTHS = [0.999999, 1e-9]


def rejection_checks(res, gam, Xq, d):
    methods = [('confidence_intervals', lambda **k: gam.confidence_intervals(Xq, **k))]
    if d['cls'] == 'LinearGAM':
        methods.append(('prediction_intervals', lambda **k: gam.prediction_intervals(Xq, **k)))
    tt = [t for t, term in enumerate(gam.terms) if not term.isintercept]
    if tt:
        methods.append(('partial_dependence', lambda **k: gam.partial_dependence(term=tt[0], X=Xq, **k)))
    for name, f in methods:
        for kw in [dict(quantiles=q) for q in REJECT_LEVELS] + [dict(width=w) for w in REJECT_WIDTHS]:
            res.case((d['index'], 'reject', name, repr(kw)))
            res.count('reject:' + name)
            try:
                with np.errstate(all='ignore'):
                    out = f(**kw)
            except ValueError:
                continue
            except Exception as e:
                res.violations.append(dict(what='%s: level outside (0,1) raised %s instead of ValueError' % (name, type(e).__name__), finding=None,
                                           input=dict(d, **kw), observed=repr(e), expected='ValueError'))
                continue
            res.violations.append(dict(what='%s accepted a quantile level outside (0,1)' % name, finding=None, input=dict(d, **{k: repr(v) for k, v in kw.items()}),
                                       observed=repr(np.asarray(out[1] if isinstance(out, list) else out)[:2].tolist()), expected='ValueError'))
        for w in ACCEPT_WIDTHS:
            res.case((d['index'], 'accept', name, w))
            try:
                with np.errstate(all='ignore'):
                    f(width=w)
            except Exception as e:
                res.violations.append(dict(what='%s rejected a width in (0,1)' % name, finding=None, input=dict(d, width=w), observed=repr(e), expected='an interval'))


def run(res):
    rng = common.rng_for(res.seed, PROP)
    nfits = 36 if res.tier == 'quick' else 400
    ncoq = 64 if res.tier == 'quick' else 800
    res.rule = ('seeded fitted models of all six classes x {n>m, n=m, n<m} x weights x term mixes (splines, linear, factor, tensor; with and without '
                'intercept; user-supplied and estimated scale); query rows = training rows, interior points and extrapolation rows (up to one data range '
                'outside); random level vectors (1-4 levels, incl. 1e-9 .. 1-1e-9 and 1/2) and widths; confidence_intervals for every model, '
                'prediction_intervals for LinearGAM, partial_dependence(width|quantiles) for every non-intercept term. Each returned bound is compared with '
                'inverse-link(lp + z_q sqrt(var)) recomputed from coef_, statistics_[cov] (the term block for partial dependence), scale, edof, n_samples, '
                'z_q from scipy.stats ppf (normal iff the scale is known, else t with n - edof df); a subset is also executed inside Coq on the GENERATED '
                'definitions by `interval`. A case is one (model, method, row, level); non-trivial when var > 0 and z_q != 0. The derived order statements '
                'and the rejection of levels outside (0,1) are evaluated directly on the implementation.')
    common.standard_prove(res, 'Props/C09.v', gen_targets=['links', 'intervals'], extra=['Model/C09Check.vo'])
    warnings.simplefilter('ignore')
    goals, meta = [], []
    coq_budget = [ncoq]
    regimes = ['n>m', 'n>m', 'n=m', 'n<m']
    nan_levels_accepted = 0
    nforced = 4 if res.tier == 'quick' else 24
    for i in range(nfits + nforced):
        if i >= nfits:
            # forced regime 0 < n - edof < 1 (unknown scale): the t quantile at a fractional number of degrees of freedom
            cls = UNKNOWN_SCALE[(i - nfits) % len(UNKNOWN_SCALE)]
            regime = 'n<m'
            scn, gam = forced_fractional_df(rng, cls)
            if scn is None:
                res.count('forced 0 < n - edof < 1: not reached for %s' % cls)
                continue
            over = {}
            d = dict(gen_models.describe(scn), index=i, fit_intercept=False, forced='0 < n_samples - edof < 1',
                     X=scn['X'].ravel().tolist(), y=scn['y'].tolist())
            res.count('forced 0 < n - edof < 1')
        else:
            cls = gen_models.CLASSES[i % 6]
            regime = regimes[(i // 6) % 4]
            scn = gen_models.gen_scenario(rng, cls=cls, regime=regime, max_n=50 if res.tier == 'quick' else 120, max_m=16 if res.tier == 'quick' else 30)
            over = dict(fit_intercept=True) if (i // 24) % 2 == 1 or rng.random() < 0.3 else {}
            d = dict(gen_models.describe(scn), index=i, fit_intercept=bool(over))
            try:
                gam = fit(scn, **over)
            except ValueError as e:
                res.count('fit raised %s' % type(e).__name__)
                continue
        if not np.isfinite(gam.coef_).all() or not np.isfinite(gam.statistics_['cov']).all():
            res.count('non-finite fit (skipped)')
            continue
        Xq, kinds = query_rows(rng, scn, 4 if res.tier == 'quick' else 8)
        try:
            ref = Ref(gam, Xq)
        except ValueError as e:
            res.count('query rows rejected: %s' % type(e).__name__)
            continue
        res.count('%s %s' % (cls, regime))
        res.count('scale known' if ref.known else 'scale estimated')
        if not ref.known and not (ref.n - ref.edof > 1e-6):
            res.count('no residual degrees of freedom (n - edof <= 0): t quantile undefined, skipped')
            continue
        link = gen_models.FAMILY[cls][0]
        m = len(ref.coef)
        allidx = list(range(m))
        # --- confidence intervals: levels and width
        qs = draw_levels(rng)
        qs_ci = list(qs)
        with np.errstate(all='ignore'):
            got = gam.confidence_intervals(Xq, quantiles=qs)
        compare(res, ref, got, allidx, False, True, qs, 'confidence_intervals', d, Xq, goals, meta, link, 'Gen_flags_confidence_intervals', allidx, coq_budget)
        w = rng.uniform(0.001, 0.999)
        with np.errstate(all='ignore'):
            got = gam.confidence_intervals(Xq, width=w)
        compare(res, ref, got, allidx, False, True, [(1 - w) / 2, (1 + w) / 2], 'confidence_intervals(width)', d, Xq, goals, meta, link, 'Gen_flags_confidence_intervals', allidx, coq_budget)
        if cls == 'LinearGAM':
            qs = draw_levels(rng)
            with np.errstate(all='ignore'):
                got = gam.prediction_intervals(Xq, quantiles=qs)
            compare(res, ref, got, allidx, True, True, qs, 'prediction_intervals', d, Xq, goals, meta, link, 'Gen_flags_prediction_intervals', allidx, coq_budget)
            w = rng.uniform(0.001, 0.999)
            with np.errstate(all='ignore'):
                got = gam.prediction_intervals(Xq, width=w)
            compare(res, ref, got, allidx, True, True, [(1 - w) / 2, (1 + w) / 2], 'prediction_intervals(width)', d, Xq, goals, meta, link, 'Gen_flags_prediction_intervals', allidx, coq_budget)
        elif hasattr(gam, 'prediction_intervals'):
            res.notes.append('%s has prediction_intervals (only LinearGAM is expected to)' % cls)
        # --- partial dependence, every term
        for t, term in enumerate(gam.terms):
            if term.isintercept:
                try:
                    gam.partial_dependence(term=t, X=Xq, width=0.9)
                    res.violations.append(dict(what='partial_dependence accepted the intercept term', finding=None, input=dict(d, term=t), observed='returned', expected='ValueError'))
                except ValueError:
                    pass
                continue
            idxs = list(gam.terms.get_coef_indices(t))
            if rng.random() < 0.5:
                qs = draw_levels(rng)
                kw = dict(quantiles=qs)
            else:
                w = rng.uniform(0.001, 0.999)
                qs = [(1 - w) / 2, (1 + w) / 2]
                kw = dict(width=w)
            with np.errstate(all='ignore'):
                out = gam.partial_dependence(term=t, X=Xq, **kw)
            pd, iv = out
            lp_t = ref.B[:, idxs] @ ref.coef[idxs]
            res.case((i, 'pdep-value', t))
            lpabs_t = np.abs(ref.B[:, idxs]) @ np.abs(ref.coef[idxs])
            if not (np.abs(np.asarray(pd, dtype=float) - lp_t) <= 1e-9 * lpabs_t + 1e-300).all():
                res.violations.append(dict(what='partial dependence differs from the term columns times the term coefficients', finding=None, input=dict(d, term=t),
                                           observed=np.asarray(pd).tolist(), expected=lp_t.tolist()))
            compare(res, ref, iv, idxs, False, False, qs, 'partial_dependence', dict(d, term=t), Xq, goals, meta, link, 'Gen_flags_partial_dependence', idxs, coq_budget)
        monotone_checks(res, gam, ref, Xq, d, rng)
        if i < 12 or res.tier != 'quick':
            rejection_checks(res, gam, Xq, d)
        # observation (not part of the real-number model): a NaN level passes the guard `q >= 1 or q <= 0`
        if i < 6:
            try:
                with np.errstate(all='ignore'):
                    out = gam.confidence_intervals(Xq, quantiles=[float('nan')])
                nan_levels_accepted += 1
            except ValueError:
                pass
        # LAST action of the scenario: the SAME object is refitted (fit on fewer rows, or gridsearch(keep_best=True)) after it has answered
        # interval queries; the bounds must follow the CURRENT n - edof / covariance / coefficients (nothing cached on the object)
        if i % 2 == 0 and scn['n'] >= 6:
            refit_same_object(res, gam, scn, d, Xq, qs_ci, link, variant='gridsearch' if i % 4 == 2 else 'fit')
    if nan_levels_accepted:
        res.notes.append('observation: a NaN quantile level is not rejected (the guard is `q >= 1 or q <= 0`); all bounds come back NaN (%d models tried)' % nan_levels_accepted)
    with common.CaseDir(PROP) as cd:
        failing, errors = common.run_interval_goals(cd, HEADER, goals, tactic='c09', shard=4, timeout=300)
    for name, out in errors:
        res.obligation('correspondence-file:' + name, False, detail=out, kind='correspondence')
    res.obligation('correspondence:generated interval definitions executed in Coq = implementation (interval-certified)', not failing and not errors,
                   detail='failing goals %s' % [meta[i] for i in failing[:4]], kind='correspondence')
    for i in failing:
        res.violations.append(dict(what='implementation bound differs from the definitions generated from the source, executed in Coq (%s)' % meta[i]['method'],
                                   finding=None, input=meta[i], observed=meta[i]['value'], expected='see coq/Gen/Intervals.v'))
    res.extra['interval_goals'] = len(goals)
    res.extra['tolerances'] = {'bound (link scale)': '1e-9 * (sum_i |row_i coef_i| + |z_q| sqrt(var)) + |z_q| * (sqrt(var + d) - sqrt(var - d)), d = 1e-13 * sum |row_i cov_ij row_j| '
                               '(float cancellation in the quadratic form of an ill-conditioned covariance); response scale: the inverse link of that bracket + 1e-12 relative',
                               'order statements on the implementation': '1e-12 relative slack'}
    res.trusted.append('scipy.stats.norm.ppf / scipy.stats.t.ppf: used by both the implementation and the recomputation; in Coq they are universally quantified '
                       'functions assumed strictly increasing on (0,1) with value 0 at 1/2 (hypotheses of the C09 order theorems)')
    res.trusted.append('GAM._modelmat(X, term) returns the columns get_coef_indices(term) of the full model matrix (C16/C02), exercised here by the partial-dependence comparison')


def replay(res, rp):
    run(res)
