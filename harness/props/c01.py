"""C01 -- fit returns the penalised (quasi-)likelihood optimum of the specified model."""
import math
import warnings

import numpy as np

import common
from common import dylit, coq_list
import gen_models

PROP = 'C01'
HEADER = """From Coq Require Import List ZArith QArith Bool.
From PG Require Import Base.Ops Base.Vec Model.Pirls Model.C01Check.
Import ListNotations.
"""
SQRT_EPS = float(np.sqrt(np.finfo(np.float64).eps))
CODES = {1: 'shapes', 2: 'working weights / pseudo data differ from w/(g\'^2 V) and lp + (y-mu) g\'', 3: 'lp differs from B . coef_entering',
         4: 'E\'E differs from S + P (+ C)', 5: 'coef_new does not solve the penalised normal equations (backward error)'}


def vec(a):
    return coq_list([dylit(x) for x in np.asarray(a, dtype=float).ravel()])


def mat(a):
    a = np.atleast_2d(np.asarray(a, dtype=float))
    return coq_list([coq_list([dylit(x) for x in row]) for row in a])


def case_of(scn, it):
    link, dist = gen_models.FAMILY[scn['cls']]
    mask = it['mask']
    B = it['modelmat'][mask, :]
    w = np.asarray(it['weights'], dtype=float)[mask]
    m = B.shape[1]
    P = it['P'] + (it['C'] if it['C'] is not None else 0.0) + SQRT_EPS * np.eye(m)
    if it['l2'] != 1e-3:     # Cholesky escalation: the code replaced A by A + (l2' - l2) I  (DESIGN C01, S14)
        P = P + (it['l2'] - 1e-3) * np.eye(m)
    tau = 'None'
    if scn['cls'] == 'ExpectileGAM':
        tau = '(Some %s)' % dylit(scn['kw']['expectile'])
    obs = coq_list(['(%s,%s,%s,%s)' % (dylit(a), dylit(b), dylit(c), dylit(d)) for a, b, c, d in zip(w, it['y'], it['mu'], it['lp'])])
    # the code forms the pseudo-inverse explicitly (V Dinv U1' Q') and applies it to W z, so the error of coef_new in the normal
    # equations grows with the conditioning of [WB; E] (observed up to ~ eps cond^1.5); the tolerance is the textbook normal-equation
    # bound 64 eps cond^2 rounded up to a power of two and clipped to [2^-27, 2^-16] (gross errors of the update are O(1e-3 .. 1))
    A = np.vstack([it['W'][:, None] * B, it['E']])
    sv = np.linalg.svd(A, compute_uv=False)
    cond = float(sv[0] / sv[-1]) if sv[-1] > 0 else 1e16
    tole = max(-27, int(math.ceil(math.log2(64 * 2.2e-16 * cond * cond))))
    if tole > -12:
        tole = 0          # not judged: see Model/C01Check.v check_solve
    case_of.last_tole = tole
    return '(mk_c01 %s %s %s %s %d %s %s %s %s %s %s %s %s %s)' % (
        link, dist, tau, dylit(float(scn.get('levels', 1))), m, mat(B), obs, vec(it['W']), vec(it['pd']), mat(it['E']), mat(P), vec(it['coef_in']), vec(it['coef_new']),
        common.zlit(tole))


def score_residual(scn, gam, X, y, w):
    """property statement evaluated on the implementation: relative residual of the score equation at the final coefficients"""
    link, dist = gen_models.FAMILY[scn['cls']]
    B = gam._modelmat(X).toarray()
    beta = gam.coef_
    lp = B @ beta
    with np.errstate(all='ignore'):
        mu = gam.link.mu(lp, gam.distribution)
        gp = gam.link.gradient(mu, gam.distribution)
        V = gam.distribution.V(mu=mu)
        a = np.ones_like(mu)
        if scn['cls'] == 'ExpectileGAM':
            t = gam.expectile
            a = np.where(y > mu, t, 1 - t)
        W2 = a * w / (gp ** 2 * V)
        keep = np.isfinite(W2) & (np.sqrt(np.abs(W2)) >= SQRT_EPS)
        s = np.where(keep, a * w * (y - mu) / (V * gp), 0.0)
    m = B.shape[1]
    P = gam._P().toarray() + SQRT_EPS * np.eye(m)
    if gam.terms.hasconstraint:
        P = P + gam._C().toarray()
    with np.errstate(all='ignore'):
        # the same score over ALL rows (the property's criterion), rows dropped by the code's mask included
        s_all = np.where(np.isfinite(a * w * (y - mu) / (V * gp)), a * w * (y - mu) / (V * gp), 0.0)
    lhs = B.T @ s
    rhs = P @ beta
    M = (B * np.where(keep, W2, 0.0)[:, None]).T @ B + P
    scale = np.abs(M) @ np.abs(beta) + np.abs(B).T @ np.abs(s) + 1e-300
    score_residual.full = float(np.max(np.abs(B.T @ s_all - rhs) / (scale.max() + np.max(np.abs(B).T @ np.abs(s_all)))))
    score_residual.masked = int((~keep).sum())
    return float(np.max(np.abs(lhs - rhs) / scale.max())), keep



def spread_probe(res, rng):
    """converged LinearGAM fits whose terms are penalised on wildly different scales (lam = 1e-3 beside lam = 1e9 .. 1e15): the
    gradient of the penalised criterion in the block of the lightly penalised term involves only O(1) quantities, so it is decided by
    binary64 although the whole system is too ill-conditioned for the global residual checks.  The ridge is the one the code used:
    sqrt(eps) plus what the Cholesky escalation added (recorded by the fit in `_constraint_l2`)."""
    import contextlib
    import io
    from pygam import LinearGAM, s
    for rep in range(2 if res.tier == 'quick' else 8):
        seed = rng.randrange(10 ** 6)
        r = np.random.RandomState(seed)
        n = r.randint(80, 200)
        X = r.uniform(0, 1, size=(n, 2))
        y = np.sin(r.uniform(5, 12) * X[:, 0]) + 0.5 * X[:, 1] + 0.1 * r.randn(n)
        m1 = int(r.randint(8, 21))
        for lam_hi in (1e9, 1e12, 1e15):
            gam = LinearGAM(s(0, n_splines=m1, lam=1e-3) + s(1, n_splines=int(r.randint(6, 12)), lam=lam_hi), fit_intercept=False)
            with contextlib.redirect_stdout(io.StringIO()), warnings.catch_warnings():
                warnings.simplefilter('ignore')
                gam.fit(X, y)
            res.case(('lam-spread', seed, lam_hi))
            res.count('lam-spread probe: lam_hi=%g' % lam_hi)
            if not (gam.logs_['diffs'][-1] < gam.tol) or not np.isfinite(gam.coef_).all():
                res.count('lam-spread probe: not converged (not judged)')
                continue
            B = gam.terms.build_columns(X).toarray()
            P = gam.terms.build_penalties().toarray()
            ridge = SQRT_EPS + (gam._constraint_l2 - 1e-3)
            g = B.T @ (y - B @ gam.coef_) - P @ gam.coef_ - ridge * gam.coef_
            rel = float(np.linalg.norm(g[:m1]) / (np.linalg.norm(B[:, :m1].T @ y) + 1e-300))
            if not (rel <= 1e-5):
                res.violations.append(dict(what='converged fit is not a stationary point: gradient of the penalised criterion in the block of a lightly penalised term '
                                                'beside a heavily penalised one', finding=None,
                                           input=dict(cls='LinearGAM', terms='s(0, n_splines=%d, lam=1e-3) + s(1, lam=%g), fit_intercept=False' % (m1, lam_hi),
                                                      data_seed=seed, n=int(n), X=X.tolist(), y=y.tolist()),
                                           observed=dict(relative_gradient_block0=rel, ridge=ridge), expected='<= 1e-5 (unchanged tree: <= 2e-9)'))

F_MASK = 'C01-masked-rows-not-stationary'


def next_step_change(gam, scn):
    """relative change of the coefficients under one more PIRLS step from the fitted state (a deep copy is refitted with max_iter = 1:
    a fitted model with as many coefficients is warm-started from coef_)"""
    import contextlib
    import copy
    import io
    g2 = copy.deepcopy(gam)
    g2.max_iter = 1
    b = np.array(gam.coef_, dtype=float)
    try:
        with warnings.catch_warnings(), contextlib.redirect_stdout(io.StringIO()), np.errstate(all='ignore'):
            warnings.simplefilter('ignore')
            if scn['w'] is None:
                g2.fit(scn['X'].copy(), scn['y'].copy())
            else:
                g2.fit(scn['X'].copy(), scn['y'].copy(), weights=scn['w'].copy())
    except Exception:
        return float('inf')
    nb = np.array(g2.coef_, dtype=float)
    return float(np.linalg.norm(nb - b) / (np.linalg.norm(nb) + 1e-300))


def mask_witness(res):
    """deterministic witness of F_MASK (exact data shared with C12's frozen-fit witness): LogisticGAM, one unpenalised spline, rows replicated;
    fit stops with diff < tol while 23 of 77 rows are masked, among them y = 1 rows predicted at 1e-23"""
    import contextlib
    import io
    import json
    import os
    from pygam import LogisticGAM, s
    d = json.load(open(os.path.join(os.path.dirname(os.path.abspath(__file__)), 'c12_mask_witness.json')))
    X, y, w, k = np.array(d['x'])[:, None], np.array(d['y']), np.array(d['w']), np.array(d['k'])
    idx = np.repeat(np.arange(len(y)), k)
    gam = LogisticGAM(s(0, n_splines=9, spline_order=2, lam=0.07484608123890127, penalties='none'), fit_intercept=False, tol=1e-10, max_iter=400)
    with warnings.catch_warnings(), contextlib.redirect_stdout(io.StringIO()), np.errstate(all='ignore'):
        warnings.simplefilter('ignore')
        gam.fit(X[idx], y[idx], weights=w[idx])
    scn = dict(cls='LogisticGAM')
    r, keep = score_residual(scn, gam, X[idx], y[idx], w[idx].astype(float))
    conv = gam.logs_['diffs'][-1] < 1e-10
    res.case(('mask-witness',))
    if conv and score_residual.masked and score_residual.full > 1e-6:
        res.violations.append(dict(what='converged fit is a stationary point only of the criterion restricted to the rows PIRLS kept: rows dropped by _mask '
                                        '(|W| < sqrt(eps) or non-finite) still carry score', finding=F_MASK,
                                   input=dict(model="LogisticGAM(s(0, n_splines=9, spline_order=2, lam=0.0748, penalties='none'), fit_intercept=False, tol=1e-10, max_iter=400)",
                                              data='harness/props/c12_mask_witness.json, rows replicated k times'),
                                   observed=dict(relative_residual_all_rows=score_residual.full, relative_residual_kept_rows=r, masked_rows=score_residual.masked,
                                                 reported_diff=float(gam.logs_['diffs'][-1])), expected='a stationary point of the full criterion'))


def closed_form_fitted(scn, gam, X, y, w):
    """penalised weighted least squares solved independently (QR-based least squares on the augmented system)"""
    B = gam._modelmat(X).toarray()
    m = B.shape[1]
    P = gam._P().toarray() + SQRT_EPS * np.eye(m)
    keep = np.sqrt(w) >= SQRT_EPS
    A = np.vstack([np.sqrt(w[keep])[:, None] * B[keep], np.linalg.cholesky(P).T])
    rhs = np.concatenate([np.sqrt(w[keep]) * y[keep], np.zeros(m)])
    beta = np.linalg.lstsq(A, rhs, rcond=None)[0]
    return B @ beta


def run(res):
    rng = common.rng_for(res.seed, PROP)
    nfits = 48 if res.tier == 'quick' else 600
    res.rule = ('seeded scenarios over all six model classes x {n>m, n=m, n<m} x weights {none, float32, integer, with zeros} x term mixes '
                '(splines of order 0-4 ps/cp, linear, factor, tensor, lists of penalties, lam 1e-4..1e4), constrained fits included; every fit is '
                'run with a user CallBack that captures the locals of each PIRLS iteration; for the first two and the last iteration Coq checks, '
                'per observation in exact rationals, W^2 g\'^2 V = asym w and pseudo_data = W (lp + (y-mu) g\'), lp = B coef_entering, '
                'E\'E = S+P(+C), and in exact dyadic arithmetic that coef_new has backward error <= 2^-27 in the penalised normal equations; '
                'converged fits: score-equation residual at the final coefficients; LinearGAM: fitted values against an independent penalised '
                'weighted least-squares solve. Distinct by scenario and iteration; a case is non-trivial when n >= 2 and at least 2 coefficients.')
    common.standard_prove(res, ['Props/C01.v', 'Props/C01Alg.v'], gen_targets=['links', 'dists', 'stats', 'solver'], extra=['Model/C01Check.vo'])
    warnings.simplefilter('ignore')
    cases, meta = [], []
    classes = gen_models.CLASSES + ['BinomialGAM']
    regimes = ['n>m', 'n>m', 'n=m', 'n<m']
    nforced = 14 if res.tier == 'quick' else 80
    for i in range(nfits + nforced):
        cls = classes[i % len(classes)]
        regime = regimes[(i // len(classes)) % len(regimes)]
        small = cls in ('LinearGAM', 'ExpectileGAM') and rng.random() < 0.5
        forced = i >= nfits
        if forced:
            # identity-link models that really iterate (asymmetric weights / constraints), targets in small units, n > m
            cls, regime, small = ['ExpectileGAM', 'LinearGAM'][i % 2], 'n>m', True
        scn = gen_models.gen_scenario(rng, cls=cls, regime=regime, constraints=(i % 5 == 4) or (small and cls == 'LinearGAM'),
                                      max_n=50 if res.tier == 'quick' else 160, max_m=18 if res.tier == 'quick' else 40)
        if forced:
            scn['kw'].update(tol=10 ** rng.uniform(-9, -6), max_iter=200)
            if cls == 'ExpectileGAM':
                scn['kw']['expectile'] = rng.choice([0.05, 0.1, 0.25, 0.8, 0.93])
            res.count('forced: iterating identity-link model, small units')
        if small:
            # targets in small units: the coefficient norm is far below 1, so only a RELATIVE stopping rule may report convergence
            u = 10 ** rng.uniform(-8, -3)
            scn['y'] = scn['y'] * u
            if 'scale' in scn['kw']:
                scn['kw']['scale'] = scn['kw']['scale'] * u * u
            res.count('targets in small units (|y| ~ %s)' % ('1e-8..1e-5' if u < 1e-5 else '1e-5..1e-3'))
        d = gen_models.describe(scn)
        try:
            gam, its, out = gen_models.fit_captured(scn)
        except ValueError as e:      # includes OptimizationError / NotPositiveDefiniteError: permitted outcomes (C11)
            res.count('fit raised %s' % type(e).__name__)
            continue
        except Exception as e:
            res.violations.append(dict(what='fit failed with an unrelated exception type', finding=None, input=d,
                                       observed='%s: %s' % (type(e).__name__, e), expected='a fitted model or ValueError'))
            continue
        res.count('%s %s' % (cls, regime))
        res.count('weights:' + d['weights'])
        if its[-1]['l2'] != 1e-3:
            res.count('cholesky escalation (l2=%g)' % its[-1]['l2'])
        converged = its[-1]['diff'] < scn['kw']['tol']
        res.count('converged' if converged else 'not converged')
        pick = sorted(set([0, 1, len(its) - 1]) & set(range(len(its))))
        for k in pick:
            cases.append(case_of(scn, its[k]))
            meta.append(dict(d, iteration=k, of=len(its)))
            res.count('normal-equation residual: ' + ('not judged (64 eps cond^2 > 2^-12)' if case_of.last_tole == 0 else 'tolerance 2^%d' % (-27 if case_of.last_tole <= -27 else
                                                                                                                                          -20 if case_of.last_tole <= -20 else -12)))
        X, y = scn['X'], scn['y']
        w = np.ones(len(y)) if scn['w'] is None else np.asarray(scn['w'], dtype=np.float32).astype(float)
        # direct probes of the property statement on the implementation
        if converged and np.isfinite(gam.coef_).all():
            r, keep = score_residual(scn, gam, X, y, w)
            res.case(('score', i))
            bound = 200 * scn['kw']['tol'] + 1e-6
            if not (r <= bound) and gam.terms.hasconstraint and next_step_change(gam, scn) <= bound:
                # the 1e9-weighted constraint matrix is rebuilt from the signs of coefficient differences; with (nearly) tied coefficients
                # those signs are decided by rounding, so C(final coefficients) can differ from the C of the last step although one more
                # PIRLS step (whose arithmetic is certified on the captured iterations) moves the coefficients by less than the bound
                res.count('constrained fit: active set undecided at rounding level, fixed-point check passed')
            elif not (r <= bound):
                res.violations.append(dict(what='converged fit is not a stationary point: score-equation residual too large', finding=None,
                                           input=d, observed=dict(relative_residual=r), expected='<= %g' % bound))
            elif score_residual.masked and not (score_residual.full <= bound):
                res.count('converged fits that are stationary only for the rows PIRLS kept (masked rows carry score)')
                res.violations.append(dict(what='converged fit is a stationary point only of the criterion restricted to the rows PIRLS kept: rows dropped by _mask '
                                                '(|W| < sqrt(eps) or non-finite) still carry score', finding=F_MASK,
                                           input=dict(d, X=X.tolist(), y=y.tolist(), weights=None if scn['w'] is None else scn['w'].tolist()),
                                           observed=dict(relative_residual_all_rows=score_residual.full, relative_residual_kept_rows=r, masked_rows=score_residual.masked),
                                           expected='<= %g over all rows' % bound))
        if cls == 'LinearGAM' and not gam.terms.hasconstraint and its[-1]['l2'] == 1e-3:
            ref = closed_form_fitted(scn, gam, X, y, w)
            got = gam.predict_mu(X)
            err = float(np.max(np.abs(ref - got)) / (np.max(np.abs(y)) + 1e-300))
            res.case(('closed-form', i))
            if not (err <= 1e-6):
                res.violations.append(dict(what='LinearGAM fitted values differ from the closed-form penalised weighted least-squares solution',
                                           finding=None, input=dict(d, X=X.tolist(), y=y.tolist(), weights=None if scn['w'] is None else scn['w'].tolist()),
                                           observed=dict(max_relative_difference=err), expected='<= 1e-6'))
    try:
        mask_witness(res)
    except Exception as e:
        res.notes.append('mask witness could not be evaluated: %s: %s' % (type(e).__name__, e))
    try:
        spread_probe(res, rng)
    except Exception as e:
        res.notes.append('lam-spread probe could not be evaluated: %s: %s' % (type(e).__name__, e))
    with common.CaseDir(PROP) as cd:
        failing, errors = common.run_bool_cases(cd, HEADER, cases, 'check_case', shard=6)
        codes = {}
        if failing:
            # ask Coq which check failed for the first few
            txt = HEADER + 'Definition cs := %s.\nInductive MARK := FAILING.\nEval vm_compute in (FAILING, map check_code cs).\n' % coq_list([cases[i] for i in failing[:8]])
            r = cd.run_files([('codes.v', txt)])
            got = common.parse_nat_list(r['codes.v'][1])
            if got:
                codes = dict(zip(failing[:8], got[0][1]))
    for name, out in errors:
        res.obligation('correspondence-file:' + name, False, detail=out, kind='correspondence')
    res.obligation('correspondence:captured PIRLS iterations satisfy the step model (exact arithmetic)', not failing and not errors,
                   detail='failing cases %s' % [(meta[i]['cls'], meta[i]['regime'], CODES.get(codes.get(i), '?')) for i in failing[:8]], kind='correspondence')
    for i, mt in enumerate(meta):
        res.case(repr((mt['cls'], mt['regime'], mt['n'], mt['m'], mt['iteration'], repr(mt['specs']))), sample=mt if i in (0, 7, 20) else None,
                 nontrivial=mt['n'] >= 2 and mt['m'] >= 2)
    for i in failing:
        res.violations.append(dict(what='PIRLS iteration violates the step model: ' + CODES.get(codes.get(i), 'see check_code'), finding=None,
                                   input=meta[i], observed='check_code = %s' % codes.get(i), expected='0'))
    res.extra['tolerances'] = {'per-observation formulas': '1e-6 relative (exact rationals; the code evaluates weights ** -1 in float32)', 'normal-equation backward error': '64 eps cond([WB;E])^2 rounded up to a power of two, clipped below at 2^-27, of the largest row scale (exact dyadics); iterations with 64 eps cond^2 > 2^-12 are not judged (counted)',
                               'score residual of converged fits': '200 tol + 1e-6 (checked, not proved)', 'closed form fitted values': '1e-6 relative to max|y|',
                               'lam-spread probe (block gradient of the lightly penalised term)': '1e-5 relative to |B1\' y| (unchanged tree <= 2e-9 on 960 fits)'}
    res.trusted.append('LAPACK contracts (QR, SVD, Cholesky) are section hypotheses of Alg/Solve.v; the backward-error check of coef_new validates their consequence on every captured iteration')


def replay(res, rp):
    run(res)
