"""Seeded scenarios: (model class, term specification, data set, weights, settings) and helpers to fit them while
capturing the internals of every PIRLS iteration through a user CallBack (no source hooks)."""
import io
import contextlib
import warnings

import numpy as np

import gen_terms

CLASSES = ['LinearGAM', 'LogisticGAM', 'PoissonGAM', 'GammaGAM', 'InvGaussGAM', 'ExpectileGAM']
FAMILY = {'BinomialGAM': ('LLogit', 'DBinomial'), 'LinearGAM': ('LIdentity', 'DNormal'), 'ExpectileGAM': ('LIdentity', 'DNormal'), 'LogisticGAM': ('LLogit', 'DBinomial'),
          'PoissonGAM': ('LLog', 'DPoisson'), 'GammaGAM': ('LLog', 'DGamma'), 'InvGaussGAM': ('LLog', 'DInvGauss')}


def f32(x):
    return np.asarray(x, dtype=np.float32).astype(np.float64)


def n_coefs_of(specs, X, factor_feats):
    tl = gen_terms.build_termlist(specs)
    tl.compile(X.copy())
    return int(tl.n_coefs)


def gen_scenario(rng, cls=None, regime=None, constraints=False, max_n=60, max_m=24, allow_tensor=True, weights=None,
                 allow_cp=True, min_order=0):
    cls = cls or rng.choice(CLASSES)
    nf = rng.randint(1, 3)
    factor_feats = tuple(j for j in range(nf) if rng.random() < 0.2)
    for _ in range(50):
        specs = gen_terms.gen_termlist(rng, nf, factor_feats, dyadic=False, max_terms=3, allow_tensor=allow_tensor,
                                       allow_constraints=constraints, max_n=9, allow_cp=allow_cp, allow_cat=False, min_order=min_order)
        Xp = gen_terms.gen_X(rng, 12, nf, factor_feats)
        try:
            m = n_coefs_of(specs, Xp, factor_feats)
        except Exception:
            continue
        if 2 <= m <= max_m:
            break
    else:
        raise RuntimeError('could not generate a term list')
    regime = regime or rng.choice(['n>m', 'n>m', 'n>m', 'n=m', 'n<m'])
    if regime == 'n>m':
        n = rng.randint(m + 1, max(m + 2, max_n))
    elif regime == 'n=m':
        n = m
    else:
        n = rng.randint(max(2, m // 2), max(2, m - 1))
    # factor features: every level present whenever n allows it (levels chosen <= n)
    levels = {j: rng.randint(2, max(2, min(4, n))) for j in factor_feats}
    X = gen_terms.gen_X(rng, n, nf, factor_feats, levels=levels)
    if any(s['kind'] == 'f' or (s['kind'] == 'te' and any(mm['kind'] == 'f' for mm in s['margins'])) for s in specs):
        m = n_coefs_of(specs, X, factor_feats)   # factor sizes follow the data
    nprng = np.random.RandomState(rng.randrange(1 << 30))
    Z = (X - X.min(axis=0)) / np.where(np.ptp(X, axis=0) > 0, np.ptp(X, axis=0), 1.0)
    sig = np.zeros(n)
    for j in range(nf):
        a, b = rng.uniform(0.5, 2.0), rng.uniform(0, 6.28)
        sig += a * np.sin(3 * Z[:, j] + b)
    sig = sig / max(1.0, np.abs(sig).max())
    if cls in ('LinearGAM', 'ExpectileGAM'):
        sc = 10 ** rng.uniform(-2, 2)
        y = sc * (sig + 0.3 * nprng.randn(n))
    elif cls == 'LogisticGAM':
        p = 1 / (1 + np.exp(-2 * sig))
        y = (nprng.rand(n) < p).astype(float)
        if y.min() == y.max():
            y[0] = 1 - y[0]
    elif cls == 'BinomialGAM':
        levels = rng.choice([2, 3, 5, 12])
        p = 1 / (1 + np.exp(-2 * sig))
        y = nprng.binomial(levels, p).astype(float)
        y[rng.randrange(n)] = float(levels)     # all-successes rows are valid binomial data
    elif cls == 'PoissonGAM':
        y = nprng.poisson(np.exp(1.0 + sig)).astype(float)
    else:
        y = np.exp(sig) * nprng.gamma(8.0, 1 / 8.0, size=n)
    if weights is None:
        weights = rng.choice(['none', 'none', 'float', 'int', 'zeros'])
    if weights == 'none':
        w = None
    elif weights == 'int':
        w = np.array([rng.randint(1, 4) for _ in range(n)], dtype=float)
    else:
        w = f32(10 ** nprng.uniform(-1, 1, size=n))
        if weights == 'zeros' and n > 3:
            for i in rng.sample(range(n), max(1, n // 6)):
                w[i] = 0.0
    kw = dict(max_iter=rng.choice([30, 100]), tol=10 ** rng.uniform(-8, -3), fit_intercept=False)
    if cls in ('LinearGAM', 'GammaGAM', 'InvGaussGAM', 'ExpectileGAM') and rng.random() < 0.3:
        kw['scale'] = float(10 ** rng.uniform(-1, 1))
    if cls == 'ExpectileGAM':
        kw['expectile'] = rng.choice([0.1, 0.25, 0.5, 0.5, 0.8, 0.93])
    out = dict(cls=cls, specs=specs, X=X, y=y, w=w, kw=kw, regime=regime, m=m, n=n, factor_feats=factor_feats)
    if cls == 'BinomialGAM':
        out['levels'] = int(levels)
    return out


def describe(scn):
    return dict(cls=scn['cls'] + ('(levels=%d)' % scn['levels'] if 'levels' in scn else ''), regime=scn['regime'], n=scn['n'], m=scn['m'], kw=scn['kw'], specs=scn['specs'],
                weights='none' if scn['w'] is None else ('zeros' if (scn['w'] == 0).any() else 'float'))


def build_gam(scn, callbacks=None, **over):
    import pygam
    kw = dict(scn['kw'])
    kw.update(over)
    if scn['cls'] == 'BinomialGAM':      # generic GAM with a binomial family of `levels` trials and the logit link
        from pygam.distributions import BinomialDist
        kw.pop('scale', None)
        gam = pygam.GAM(gen_terms.build_termlist(scn['specs']), distribution=BinomialDist(levels=scn['levels']), link='logit', **kw)
    else:
        gam = getattr(pygam, scn['cls'])(gen_terms.build_termlist(scn['specs']), **kw)
    if callbacks is not None:
        gam.callbacks = callbacks     # assigned after construction: LinearGAM's constructor drops the keyword (S13)
    return gam


def make_capture(with_C=False):
    """user CallBack that records the locals of _pirls.  The methods must not have locals of their own: pyGAM passes
    every name in co_varnames as a keyword."""
    from pygam.callbacks import CallBack

    class Capture(CallBack):
        def __init__(self):
            super(Capture, self).__init__(name='verifcapture')

        def on_loop_start(self, gam):
            return ('start', np.array(gam.coef_, dtype=float).copy(), float(gam._constraint_l2))

    if with_C:
        def on_loop_end(self, gam, y, lp, mu, W, mask, E, modelmat, pseudo_data, coef_new, weights, P, C, U1, B, WB, diff):
            return ('end', dict(y=np.array(y), lp=np.array(lp), mu=np.array(mu), W=np.array(W.diagonal()), mask=np.array(mask),
                                E=np.array(E.A if hasattr(E, 'A') else E), modelmat=modelmat.toarray(), pd=np.array(pseudo_data),
                                coef_new=np.array(coef_new), weights=np.array(weights), P=P.toarray(), C=C.toarray(),
                                U1=np.array(U1), B=np.array(B), WB=WB.toarray(), diff=float(diff), l2=float(gam._constraint_l2)))
    else:
        def on_loop_end(self, gam, y, lp, mu, W, mask, E, modelmat, pseudo_data, coef_new, weights, P, U1, B, WB, diff):
            return ('end', dict(y=np.array(y), lp=np.array(lp), mu=np.array(mu), W=np.array(W.diagonal()), mask=np.array(mask),
                                E=np.array(E.A if hasattr(E, 'A') else E), modelmat=modelmat.toarray(), pd=np.array(pseudo_data),
                                coef_new=np.array(coef_new), weights=np.array(weights), P=P.toarray(), C=None,
                                U1=np.array(U1), B=np.array(B), WB=WB.toarray(), diff=float(diff), l2=float(gam._constraint_l2)))
    Capture.on_loop_end = on_loop_end
    return Capture()


def fit_captured(scn, **over):
    """returns (gam, iterations) where iterations = list of dicts with coef_in + the captured locals; raises what fit raises"""
    tl = gen_terms.build_termlist(scn['specs'])
    cap = make_capture(with_C=bool(tl.hasconstraint))
    gam = build_gam(scn, callbacks=['deviance', 'diffs', cap], **over)
    out = io.StringIO()
    with warnings.catch_warnings(), contextlib.redirect_stdout(out), np.errstate(all='ignore'):
        warnings.simplefilter('ignore')
        if scn['w'] is None:
            gam.fit(scn['X'].copy(), scn['y'].copy())
        else:
            gam.fit(scn['X'].copy(), scn['y'].copy(), weights=scn['w'].copy())
    log = gam.logs_['verifcapture']
    its = []
    cur = None
    for rec in log:
        if rec[0] == 'start':
            cur = dict(coef_in=rec[1], l2_in=rec[2])
        else:
            d = dict(rec[1])
            d.update(cur)
            its.append(d)
    return gam, its, out.getvalue()
