#!/usr/bin/env python3
"""Confirm a seeded change and run the property's check against it.

usage: tools/try_seed.py <prop> <patch.diff> <demo.py> <name> [--needs "..."] [--also C08,C01]

Steps (all in a scratch worktree of /repo outside /repo and /verif, removed afterwards):
  1. demo on the clean tree must exit 0; 2. patch must apply; 3. demo on the patched tree must exit != 0;
  4. (optional, --suite) the pinned test-suite on the patched tree must equal the baseline (139 passed, the 1 known failure);
  5. `VERIF_REPO=<worktree> ./check <prop>` must exit 1 with a VIOLATION line (also for every property in --also);
Writes /verif/seeded/<name>/{patch.diff, demo.py, meta.json}.
"""
import argparse
import json
import os
import shutil
import subprocess
import sys
import time

V = os.path.dirname(os.path.dirname(os.path.abspath(__file__)))


def sh(cmd, **kw):
    return subprocess.run(cmd, shell=True, stdout=subprocess.PIPE, stderr=subprocess.STDOUT, text=True, **kw)


def main():
    ap = argparse.ArgumentParser()
    ap.add_argument('prop'); ap.add_argument('patch'); ap.add_argument('demo'); ap.add_argument('name')
    ap.add_argument('--needs', default=''); ap.add_argument('--also', default=''); ap.add_argument('--suite', action='store_true')
    ap.add_argument('--why', default='')
    a = ap.parse_args()
    wt = '/tmp/tryseed-%s-%d' % (a.name, os.getpid())
    sh('git -C /repo worktree add --detach %s HEAD -f' % wt)
    # a private copy of the compiled Coq project: the run regenerates coq/Gen from the scratch tree and must not disturb checks of /repo
    coqcopy = '/tmp/tryseed-coq-%s-%d' % (a.name, os.getpid())
    sh('rsync -a --exclude Cases --exclude ".*.lock" %s/coq/ %s/' % (V, coqcopy))
    meta = dict(property=a.prop, name=a.name, needs=a.needs, why=a.why, ran=[], repo_head=sh('git -C /repo rev-parse --short HEAD').stdout.strip())
    try:
        env = 'PYTHONPATH=%s PYTHONHASHSEED=0' % wt
        r = sh('%s /venv/bin/python -W ignore %s' % (env, a.demo), cwd=os.path.dirname(os.path.abspath(a.demo)))
        meta['demo_clean_exit'] = r.returncode
        meta['ran'].append('demo on clean tree: exit %d' % r.returncode)
        r = sh('git -C %s apply %s' % (wt, os.path.abspath(a.patch)))
        if r.returncode != 0:
            r = sh('git -C %s apply --3way %s' % (wt, os.path.abspath(a.patch)))
        meta['patch_applies'] = r.returncode == 0
        meta['ran'].append('git apply: exit %d %s' % (r.returncode, r.stdout[-300:]))
        if r.returncode != 0:
            print(json.dumps(meta, indent=1)); return 2
        r = sh('%s /venv/bin/python -W ignore %s' % (env, a.demo), cwd=os.path.dirname(os.path.abspath(a.demo)))
        meta['demo_patched_exit'] = r.returncode
        meta['demo_patched_tail'] = r.stdout[-600:]
        meta['ran'].append('demo on patched tree: exit %d' % r.returncode)
        if a.suite:
            r = sh('cd %s && /venv/bin/python -m pytest -q -p no:cacheprovider --timeout=900 2>&1 | tail -3' % wt)
            meta['suite_tail'] = r.stdout[-300:]
            meta['ran'].append('pytest on patched tree: ' + r.stdout.strip().splitlines()[-1] if r.stdout.strip() else 'pytest: no output')
        results = {}
        for p in [a.prop] + [x for x in a.also.split(',') if x]:
            t0 = time.time()
            r = sh('cd %s && VERIF_REPO=%s VERIF_COQ=%s ./check %s' % (V, wt, coqcopy, p))
            lines = [l for l in r.stdout.splitlines() if l.startswith(('VIOLATION', 'OK ', 'KNOWN-FINDING'))]
            results[p] = dict(exit=r.returncode, lines=[l[:300] for l in lines if not l.startswith('KNOWN')], wall=round(time.time() - t0, 1))
            viol = [l for l in lines if l.startswith('VIOLATION')]
            if viol:
                rp = viol[0].split('replay=')[1].split()[0]
                try:
                    rj = json.load(open(rp))
                    results[p]['first_failing_input'] = (rj.get('failing_inputs') or [None])[0]
                    results[p]['broken'] = [b['name'] for b in rj.get('broken_obligations', [])][:6]
                    results[p]['n_failing_inputs'] = len(rj.get('failing_inputs') or [])
                except Exception as e:
                    results[p]['replay_error'] = str(e)
            meta['ran'].append('VERIF_REPO=<patched> ./check %s: exit %d' % (p, r.returncode))
        meta['checks'] = results
        meta['detected'] = results[a.prop]['exit'] == 1
        out = os.path.join(V, 'seeded', a.name)
        os.makedirs(out, exist_ok=True)
        for src, dst in ((a.patch, 'patch.diff'), (a.demo, 'demo.py')):
            if os.path.dirname(os.path.realpath(src)) != os.path.realpath(out):      # re-evaluation of a recorded seed keeps its files
                shutil.copy(src, os.path.join(out, dst))
        try:
            oldm = json.load(open(os.path.join(out, 'meta.json')))
            for k in ('why', 'needs', 'summary'):
                if not meta.get(k) and oldm.get(k):
                    meta[k] = oldm[k]
        except Exception:
            pass
        json.dump(meta, open(os.path.join(out, 'meta.json'), 'w'), indent=1, default=str)
        print(json.dumps({k: meta[k] for k in ('name', 'demo_clean_exit', 'demo_patched_exit', 'detected')}, indent=0))
        for p, rr in results.items():
            fi = rr.get('first_failing_input') or {}
            print(' ', p, 'exit', rr['exit'], 'failing_inputs', rr.get('n_failing_inputs'), 'broken', rr.get('broken'), '| first:', str(fi.get('what'))[:140])
    finally:
        sh('git -C /repo worktree remove --force %s' % wt)
        shutil.rmtree(coqcopy, ignore_errors=True)
    return 0


if __name__ == '__main__':
    sys.exit(main())
