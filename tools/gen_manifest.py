#!/usr/bin/env python3
"""Regenerates /verif/MANIFEST.json from the table below (kept in one place so it stays valid)."""
import json, os
V = os.path.dirname(os.path.dirname(os.path.abspath(__file__)))
ALL = ['C%02d' % i for i in range(1, 21)]
TABLE = json.load(open(os.path.join(V, 'tools', 'claims.json')))
checks, na = [], []
for pid in ALL:
    c = TABLE.get(pid)
    if c and c.get('claimed'):
        checks.append(dict(
            property_id=pid,
            quick_cmd='./check %s --tier quick' % pid,
            thorough_cmd='./check %s --tier thorough' % pid,
            evidence_file='/verif/evidence/%s.json' % pid,
            replay_cmd_template='./check %s --replay {path}' % pid,
            engine='rocq',
            level_claimed=dict(category='proof', text=c['text'], design_ref=c.get('design_ref', 'DESIGN.md section 7 (%s)' % pid)),
            level_note=c['note'],
            technique=c['technique']))
    else:
        na.append(dict(property_id=pid, reason=(c or {}).get('reason', 'check not built yet in this round; no claim is made')))
m = dict(
    version=1,
    setup_cmd='cd /verif && ./setup.sh',
    hooks=dict(guard='PYGAM_VERIF', enable='export PYGAM_VERIF=1 (set by ./check; there are no source hooks: the harness observes the implementation through its public API and user CallBack objects)',
               baseline_off_cmd='cd /repo && env -u PYGAM_VERIF /venv/bin/python -m pytest -ra -q -p no:cacheprovider --timeout=900 --continue-on-collection-errors',
               source_commits=[], add_only=True),
    engines=[dict(name='rocq', path='/verif/coq', serves_properties=[c['property_id'] for c in checks],
                  kind_free_text='Coq 8.16.1 development (models, theorems, generated definitions) + Python translator and correspondence harness')],
    checks=checks,
    notes='See DESIGN.md. Every check: translate (coq/Gen from /repo), re-prove Props/Cxx.v, run model-vs-implementation correspondence, print KNOWN-FINDING lines, exit 1 with a VIOLATION line on anything unlisted.',
    not_applicable=na)
json.dump(m, open(os.path.join(V, 'MANIFEST.json'), 'w'), indent=1)
print('claimed', [c['property_id'] for c in checks])
