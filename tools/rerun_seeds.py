#!/usr/bin/env python3
"""Re-evaluate every recorded seed against the current /repo HEAD and the current checks (sequentially; ~1-2 min per seed).
usage: tools/rerun_seeds.py [C05 C13-seed2 ...]"""
import glob
import os
import subprocess
import sys

V = os.path.dirname(os.path.dirname(os.path.abspath(__file__)))
want = sys.argv[1:]
for d in sorted(glob.glob(os.path.join(V, 'seeded', 'C*'))):
    name = os.path.basename(d)
    if not os.path.isdir(d) or (want and not any(name == w or name.startswith(w + '-') for w in want)):
        continue
    ported = sorted(f for f in os.listdir(d) if f.endswith('.diff') and 'ported' in f)
    patch = os.path.join(d, ported[-1] if ported else 'patch.diff')
    r = subprocess.run([sys.executable, os.path.join(V, 'tools', 'try_seed.py'), name.split('-')[0], patch, os.path.join(d, 'demo.py'), name],
                       stdout=subprocess.PIPE, stderr=subprocess.STDOUT, text=True)
    print(name, '|', ' '.join(r.stdout.strip().splitlines()[-1:])[:260], flush=True)
subprocess.run([sys.executable, os.path.join(V, 'tools', 'seed_matrix.py')])
