#!/usr/bin/env python3
"""Re-evaluate every recorded seed against the current /repo HEAD and the current checks (each in its own scratch worktree and private Coq
copy, so several can run at once).
usage: tools/rerun_seeds.py [-j N] [C05 C13-seed2 ...]"""
import concurrent.futures
import glob
import os
import subprocess
import sys

V = os.path.dirname(os.path.dirname(os.path.abspath(__file__)))
args = sys.argv[1:]
jobs = 1
if args[:1] == ['-j']:
    jobs = int(args[1]); args = args[2:]
want = args


def one(d):
    name = os.path.basename(d)
    ported = sorted(f for f in os.listdir(d) if f.endswith('.diff') and 'ported' in f)
    patch = os.path.join(d, ported[-1] if ported else 'patch.diff')
    r = subprocess.run([sys.executable, os.path.join(V, 'tools', 'try_seed.py'), name.split('-')[0], patch, os.path.join(d, 'demo.py'), name],
                       stdout=subprocess.PIPE, stderr=subprocess.STDOUT, text=True)
    return name + ' | ' + ' '.join(r.stdout.strip().splitlines()[-1:])[:260]


dirs = [d for d in sorted(glob.glob(os.path.join(V, 'seeded', 'C*')))
        if os.path.isdir(d) and (not want or any(os.path.basename(d) == w or os.path.basename(d).startswith(w + '-') for w in want))]
with concurrent.futures.ThreadPoolExecutor(max_workers=jobs) as ex:
    for line in ex.map(one, dirs):
        print(line, flush=True)
subprocess.run([sys.executable, os.path.join(V, 'tools', 'seed_matrix.py')])
