#!/bin/bash
# multi-seed soak: every check, several seeds, quick tier; prints one line per run that is not OK
cd "$(dirname "$0")/.."
seeds="${1:-1 2 3 4 5}"
for s in $seeds; do
  for i in $(seq -w 1 20); do
    out=$(VERIF_SEED=$s ./check C$i 2>/dev/null | grep -E '^(OK|VIOLATION)' | tail -1)
    case "$out" in OK*) echo "seed=$s C$i ok ${out##*wall=}";; *) echo "seed=$s C$i FAIL: $out";; esac
  done
done
