#!/usr/bin/env python3
"""Static hygiene of the Rocq development: no Admitted/admit/Axiom/Parameter/Conjecture, no guard/universe switches,
and every Variable/Hypothesis/Context is inside a Section (outside one it would declare an axiom)."""
import os, re, sys
V = os.path.join(os.path.dirname(os.path.dirname(os.path.abspath(__file__))), 'coq')
bad = []
FORBID = re.compile(r'\b(Admitted|admit|Axiom|Axioms|Parameter|Parameters|Conjecture|Admit Obligations)\b|Unset Guard|bypass_check|type-in-type|impredicative-set|Unset Universe Checking|Unset Positivity')
for root, _, files in os.walk(V):
    if '/Cases' in root:
        continue
    for f in files:
        if not f.endswith('.v'):
            continue
        p = os.path.join(root, f)
        txt = open(p).read()
        txt = re.sub(r'\(\*.*?\*\)', lambda m: '\n' * m.group(0).count('\n'), txt, flags=re.S)   # strip comments (non-nested is enough here)
        depth = 0
        for i, line in enumerate(txt.split('\n'), 1):
            s = line.strip()
            if re.match(r'Section\s+\w+\s*\.', s):
                depth += 1
            elif re.match(r'End\s+\w+\s*\.', s) and depth > 0:
                depth -= 1
            if FORBID.search(s) and not re.search(r'"[^"]*(Parameter|admit)[^"]*"', s):
                bad.append((p, i, 'forbidden: ' + s[:100]))
            if re.match(r'(Variable|Variables|Hypothesis|Hypotheses|Context)\b', s) and depth == 0:
                bad.append((p, i, 'outside a Section: ' + s[:100]))
for b in bad:
    print('%s:%d: %s' % b)
print('hygiene: %d problem(s)' % len(bad))
sys.exit(1 if bad else 0)
