#!/bin/bash
# Re-check compiled property files (and everything they depend on) with the independent checker; print the axioms.
# usage: tools/coqchk_all.sh [Props module names, default: all]      (about 1-5 min and up to ~4 GB per module)
HERE="$(cd "$(dirname "$0")/.." && pwd)"; cd "$HERE/coq"
mkdir -p "$HERE/notes/coqchk"
mods="$@"
[ -z "$mods" ] && mods=$(ls Props/*.v | sed 's|Props/||; s|\.v$||')
for m in $mods; do
  [ -f Props/$m.vo ] || { echo "$m: not compiled"; continue; }
  /usr/bin/time -f "%es %MkB" timeout 3600 coqchk -silent -o -Q . PG PG.Props.$m > "$HERE/notes/coqchk/$m.txt" 2>&1
  echo "$m exit $? | $(grep -A12 '^\* Axioms' "$HERE/notes/coqchk/$m.txt" | tr -s ' \n' ' ' | cut -c1-600) | $(tail -1 "$HERE/notes/coqchk/$m.txt")"
done
