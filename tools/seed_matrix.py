#!/usr/bin/env python3
"""Write seeded/MATRIX.md: which check, and which part of it, catches which seeded change (from seeded/*/meta.json)."""
import glob
import json
import os
import re

V = os.path.dirname(os.path.dirname(os.path.abspath(__file__)))


def main():
    rows = []
    for d in sorted(glob.glob(os.path.join(V, 'seeded', 'C*'))):
        if not os.path.isdir(d):
            continue
        m = json.load(open(os.path.join(d, 'meta.json')))
        diffs = sorted(f for f in os.listdir(d) if f.endswith('.diff'))
        ported = [f for f in diffs if 'ported' in f]
        patch = open(os.path.join(d, (ported or ['patch.diff'])[0])).read()
        files = sorted(set(re.findall(r'^\+\+\+ b/(\S+)', patch, re.M)))
        plus = [l[1:].strip() for l in patch.splitlines()
                if l.startswith('+') and not l.startswith('+++') and l[1:].strip() and not l[1:].strip().startswith('#')]
        change = (m.get('summary') or ' ; '.join(plus[:2]))[:150].replace('|', '\\|')
        cells = []
        for p, c in sorted(m.get('checks', {}).items()):
            fi = c.get('first_failing_input') or {}
            broken = c.get('broken') or []
            kinds = sorted({b.split(':')[0] for b in broken})
            part = []
            if c.get('n_failing_inputs'):
                part.append('failing input: "%s" (%d inputs)' % (str(fi.get('what'))[:110].replace('|', '\\|'), c['n_failing_inputs']))
            if kinds:
                part.append('broken: ' + ', '.join(kinds))
            if c.get('exit') == 1 and not c.get('n_failing_inputs'):
                part.append('no-failing-input-found')
            cells.append('%s: %s' % (p, 'exit %s; %s' % (c.get('exit'), '; '.join(part)) if part else 'exit %s (not detected)' % c.get('exit')))
        rows.append('| %s | %s | `%s` | %s | %s |' % (os.path.basename(d), ','.join(f.replace('pygam/', '') for f in files), change,
                                                  'yes' if m.get('detected') else '**no**', '<br>'.join(cells)))
    out = ['# Seeded changes and what catches them', '',
           'Each row: a change produced by a sub-agent that saw only the property text and a scratch worktree (it compiles, the pinned test-suite',
           'still passes, its demo fails with it and passes without it), confirmed and evaluated by `tools/try_seed.py` against HEAD `%s`.' %
           os.popen('git -C /repo rev-parse --short HEAD').read().strip(),
           '"broken: translate" = the fail-closed translator no longer recognises the source; "theorem" = a Props theorem no longer checks over the',
           'regenerated definitions; "correspondence" = model and implementation disagree on generated cases.', '',
           '| seed | file | change (first added lines) | detected | by |', '|---|---|---|---|---|'] + rows
    open(os.path.join(V, 'seeded', 'MATRIX.md'), 'w').write('\n'.join(out) + '\n')
    print('%d seeds, %d detected' % (len(rows), sum('| yes |' in r for r in rows)))


if __name__ == '__main__':
    main()
