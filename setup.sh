#!/bin/bash
# Build the whole Rocq development from files on disk (offline). Generated files (coq/Gen) are produced
# from /repo's current working tree by the translator first.
set -e
cd "$(dirname "$0")"
HERE="$(pwd)"; export PYTHONPATH=/repo:"$HERE"/harness:"$HERE"/translator PYTHONHASHSEED=0
if [ -f translator/py2coq.py ]; then
  /venv/bin/python -W ignore translator/py2coq.py --all 2> >(grep -v -i conda >&2) || echo "translator reported a problem (checks will report it)"
fi
cd coq
coq_makefile -f _CoqProject -o Makefile > /dev/null
timeout 3000 make -j16 -k 2>&1 | tail -15
/venv/bin/python -m compileall -q "$HERE"/harness "$HERE"/translator > /dev/null 2>&1 || true
exit 0
